/-
Model.Idl.PegPos — peg's error position: `ErrorState::mark_failure` keeps the
*furthest* position at which a non-suppressed terminal failed (peg-runtime
error.rs; peg-macros translate.rs).  This file re-runs the grammar as a
recogniser that threads `max_err_pos`:

* a literal or character class that fails marks its start position;
* `quiet!{e} / expected!(..)` (rules whitespace, comment, eol, wce, interface_name)
  marks only the position where the whole rule was attempted;
* a repetition ends with a failing attempt, whose marks stay;
* when `ParseInterface` matched but did not reach the end, "EOF" is marked there.

Positions are counted in characters from the start of the input.
-/
import VarlinkVerif.Model.Idl.Peg

namespace VV.Idl.Pos

structure St where
  s : Input
  pos : Nat

/-- a recogniser threading `max_err_pos` -/
abbrev PE := St → Nat → Option St × Nat

/-- `quiet!{ rule } / expected!(..)`, and (same effect) a string literal -/
def tok (p : Input → Option (Str × Input)) : PE := fun st e =>
  match p st.s with
  | some (t, r) => (some ⟨r, st.pos + t.length⟩, e)
  | none => (none, max e st.pos)

def litE (l : Str) : PE := fun st e =>
  match lit l st.s with
  | some r => (some ⟨r, st.pos + l.length⟩, e)
  | none => (none, max e st.pos)

/-- a character class `[...]` -/
def cls (f : Char → Bool) : PE := fun st e =>
  match st.s with
  | c :: r => if f c then (some ⟨r, st.pos + 1⟩, e) else (none, max e st.pos)
  | [] => (none, max e st.pos)

def seq (p q : PE) : PE := fun st e =>
  match p st e with
  | (some st1, e1) => q st1 e1
  | (none, e1) => (none, e1)

def alt (p q : PE) : PE := fun st e =>
  match p st e with
  | (some st1, e1) => (some st1, e1)
  | (none, e1) => q st e1

def opt (p : PE) : PE := fun st e =>
  match p st e with
  | (some st1, e1) => (some st1, e1)
  | (none, e1) => (some st, e1)

def star (p : PE) : Nat → PE
  | 0 => fun st e => (some st, e)
  | n + 1 => fun st e =>
    match p st e with
    | (some st1, e1) => star p n st1 e1
    | (none, e1) => (some st, e1)

def sepTail (p sep : PE) : Nat → PE
  | 0 => fun st e => (some st, e)
  | n + 1 => fun st e =>
    match sep st e with
    | (none, e1) => (some st, e1)
    | (some st1, e1) =>
      match p st1 e1 with
      | (none, e2) => (some st, e2)
      | (some st2, e2) => sepTail p sep n st2 e2

/-- `p ** sep` (`atLeastOne = false`) and `p ++ sep` -/
def sepBy (p sep : PE) (n : Nat) (atLeastOne : Bool) : PE := fun st e =>
  match p st e with
  | (none, e1) => if atLeastOne then (none, e1) else (some st, e1)
  | (some st1, e1) => sepTail p sep n st1 e1

def wceE : PE := tok wce
def wceStarE (n : Nat) : PE := star wceE n
def wcePlusE (n : Nat) : PE := seq wceE (wceStarE n)
def eolE : PE := tok eol

def fieldNameE (n : Nat) : PE :=
  seq (cls isAlpha) (star (seq (opt (litE ['_'])) (cls isAlnum)) n)

def nameE (n : Nat) : PE := seq (cls isUpper) (star (cls isAlnum) n)

def venumE (n : Nat) : PE :=
  seq (cls (· == '(')) <| seq (wceStarE n) <|
    seq (sepBy (fieldNameE n) (seq (cls (· == ',')) (wceStarE n)) n false) <|
      seq (wceStarE n) (cls (· == ')'))

def objectFieldE (n : Nat) (ty : PE) : PE :=
  seq (wceStarE n) <| seq (fieldNameE n) <| seq (wceStarE n) <| seq (cls (· == ':')) <| seq (wceStarE n) ty

def vstructE (n : Nat) (ty : PE) : PE :=
  seq (cls (· == '(')) <| seq (wceStarE n) <|
    seq (sepBy (objectFieldE n ty) (cls (· == ',')) n false) <| seq (wceStarE n) (cls (· == ')'))

def btypeE (n : Nat) (ty : PE) : PE :=
  alt (litE ['b', 'o', 'o', 'l']) <| alt (litE ['i', 'n', 't']) <| alt (litE ['f', 'l', 'o', 'a', 't']) <|
  alt (litE ['s', 't', 'r', 'i', 'n', 'g']) <| alt (litE ['o', 'b', 'j', 'e', 'c', 't']) <| alt (nameE n) <|
  alt (vstructE n ty) (venumE n)

def arrayE : PE := litE ['[', ']']
def dictE : PE := litE ['[', 's', 't', 'r', 'i', 'n', 'g', ']']
def optionE : PE := litE ['?']

def typeE : Nat → PE
  | 0 => fun _ e => (none, e)
  | n + 1 =>
    alt (btypeE n (typeE n)) <|
    alt (seq arrayE (typeE n)) <|
    alt (seq dictE (typeE n)) <|
    alt (seq optionE (btypeE n (typeE n))) <|
    alt (seq optionE (seq arrayE (typeE n))) <|
    seq optionE (seq dictE (typeE n))

def memberHeadE (n : Nat) (kw : Str) : PE :=
  seq (wceStarE n) <| seq (litE kw) <| seq (wcePlusE n) <| seq (nameE n) (wceStarE n)

def vtypedefE (n : Nat) : PE :=
  alt (seq (memberHeadE n ['t', 'y', 'p', 'e']) (vstructE n (typeE n)))
      (seq (memberHeadE n ['t', 'y', 'p', 'e']) (venumE n))

def errorE (n : Nat) : PE := seq (memberHeadE n ['e', 'r', 'r', 'o', 'r']) (vstructE n (typeE n))

def methodE (n : Nat) : PE :=
  seq (memberHeadE n ['m', 'e', 't', 'h', 'o', 'd']) <| seq (vstructE n (typeE n)) <| seq (wceStarE n) <|
    seq (litE ['-', '>']) <| seq (wceStarE n) (vstructE n (typeE n))

def memberE (n : Nat) : PE := alt (methodE n) (alt (vtypedefE n) (errorE n))

def parseInterfaceE (n : Nat) : PE :=
  seq (wceStarE n) <| seq (litE ['i', 'n', 't', 'e', 'r', 'f', 'a', 'c', 'e']) <| seq (wcePlusE n) <|
    seq (tok (interfaceNameF n)) <| seq eolE <| seq (sepBy (memberE n) eolE n true) (wceStarE n)

/-- `max_err_pos` after the first pass of the exported `ParseInterface` function
    (`none`: the input was accepted) -/
def errPos (input : Input) : Option Nat :=
  match parseInterfaceE (input.length + 1) ⟨input, 0⟩ 0 with
  | (some st, e) => if st.s.isEmpty then none else some (max e st.pos)
  | (none, e) => some e

end VV.Idl.Pos
