/-
Model.Idl.Peg — the PEG of `varlink_parser/src/varlink_grammar.rs`, rule by rule,
as total functions on the remaining input.

Conventions
* A rule is a function `Input → Option (α × Input)` (value and remaining input);
  lexical rules return the consumed text (what `$( … )` would slice).
* `/` is ordered choice: the second alternative is tried only when the first
  returned `none`, at the *same* input.  `*`/`+`/`**`/`++` are possessive: they take
  as many iterations as match and never give one back.
* Repetitions and the recursive rule `type_` take a fuel argument.  `parse` starts
  with `input.length + 1`; every iteration of every starred expression of the grammar
  consumes at least one character, so that fuel is never exhausted
  (`Lemmas/Idl*.lean`: the result does not depend on the fuel once it exceeds the
  length of the input — this is the termination argument of C12).
* `quiet!`/`expected!` only influence error reporting; that part is `PegPos.lean`.
-/
import VarlinkVerif.Model.Idl.Ast

namespace VV.Idl

/-! ### character classes -/

/-- rule `whitespace` (ECMA-262 7.2) -/
def isWs (c : Char) : Bool :=
  c == ' ' || c == '\t' || c == '\u00A0' || c == '\uFEFF' || c == '\u1680' || c == '\u180E' ||
  (0x2000 ≤ c.toNat && c.toNat ≤ 0x200A) || c == '\u202F' || c == '\u205F' || c == '\u3000'

/-- first characters of rule `eol_r` = the class excluded inside comments -/
def isEolChar (c : Char) : Bool :=
  c == '\n' || c == '\r' || c == '\u2028' || c == '\u2029'

def isLower (c : Char) : Bool := 'a'.toNat ≤ c.toNat && c.toNat ≤ 'z'.toNat
def isUpper (c : Char) : Bool := 'A'.toNat ≤ c.toNat && c.toNat ≤ 'Z'.toNat
def isDigit (c : Char) : Bool := '0'.toNat ≤ c.toNat && c.toNat ≤ '9'.toNat
def isAlpha (c : Char) : Bool := isLower c || isUpper c
def isAlnum (c : Char) : Bool := isLower c || isUpper c || isDigit c

/-! ### generic pieces -/

/-- a string literal `"…"` -/
def lit : Str → Input → Option Input
  | [], s => some s
  | c :: l, d :: s => if c = d then lit l s else none
  | _ :: _, [] => none

/-- possessive repetition `p*` of a lexical rule, concatenating the consumed text -/
def manyF (p : Input → Option (Str × Input)) : Nat → Input → Str × Input
  | 0, s => ([], s)
  | n + 1, s =>
    match p s with
    | some (t, r) => let q := manyF p n r; (t ++ q.1, q.2)
    | none => ([], s)

/-- `(sep p)*` — the tail of `p ** sep`: stops (giving back the separator) when `sep` or `p` fails -/
def sepTailF {α : Type} (p : Input → Option (α × Input)) (sep : Input → Option Input) :
    Nat → Input → List α × Input
  | 0, s => ([], s)
  | n + 1, s =>
    match sep s with
    | none => ([], s)
    | some s1 =>
      match p s1 with
      | none => ([], s)
      | some (a, s2) => let q := sepTailF p sep n s2; (a :: q.1, q.2)

/-- `p ** sep` (zero or more) -/
def sepByF {α : Type} (p : Input → Option (α × Input)) (sep : Input → Option Input)
    (n : Nat) (s : Input) : List α × Input :=
  match p s with
  | none => ([], s)
  | some (a, s1) => let q := sepTailF p sep n s1; (a :: q.1, q.2)

/-! ### lexical rules -/

/-- rule `whitespace` -/
def whitespace : Input → Option (Str × Input)
  | c :: r => if isWs c then some ([c], r) else none
  | [] => none

/-- rule `eol_r`: "\n" / "\r\n" / "\r" / U+2028 / U+2029 -/
def eolR : Input → Option (Str × Input)
  | [] => none
  | c :: r =>
    if c = '\n' then some ([c], r)
    else if c = '\r' then
      match r with
      | d :: r' => if d = '\n' then some ([c, d], r') else some ([c], r)
      | [] => some ([c], r)
    else if c = '\u2028' then some ([c], r)
    else if c = '\u2029' then some ([c], r)
    else none

/-- rule `comment`: "#" (!eolchar [_])* eol_r — a comment must be terminated -/
def comment : Input → Option (Str × Input)
  | [] => none
  | c :: r =>
    if c = '#' then
      match eolR (r.dropWhile fun x => !isEolChar x) with
      | some (e, r') => some (c :: (r.takeWhile fun x => !isEolChar x) ++ e, r')
      | none => none
    else none

/-- rule `eol`: whitespace* eol_r / comment -/
def eol (s : Input) : Option (Str × Input) :=
  match eolR (s.dropWhile isWs) with
  | some (e, r) => some (s.takeWhile isWs ++ e, r)
  | none => comment s

/-- rule `wce`: whitespace / comment / eol_r -/
def wce (s : Input) : Option (Str × Input) :=
  match whitespace s with
  | some x => some x
  | none =>
    match comment s with
    | some x => some x
    | none => eolR s

/-- `wce()*` -/
def wceStarF (n : Nat) (s : Input) : Str × Input := manyF wce n s

/-- `wce()+` -/
def wcePlusF (n : Nat) (s : Input) : Option (Str × Input) :=
  match wce s with
  | some (t, r) => let q := wceStarF n r; some (t ++ q.1, q.2)
  | none => none

/-- one iteration of `( "_"? [a-zA-Z0-9] )` -/
def fieldNameStep : Input → Option (Str × Input)
  | [] => none
  | c :: r =>
    if c = '_' then
      match r with
      | d :: r' => if isAlnum d then some ([c, d], r') else none
      | [] => none
    else if isAlnum c then some ([c], r) else none

/-- rule `field_name`: [a-zA-Z] ( "_"? [a-zA-Z0-9] )* -/
def fieldNameF (n : Nat) : Input → Option (Str × Input)
  | [] => none
  | c :: r => if isAlpha c then let q := manyF fieldNameStep n r; some (c :: q.1, q.2) else none

/-- rule `name`: [A-Z][a-zA-Z0-9]* -/
def name : Input → Option (Str × Input)
  | [] => none
  | c :: r => if isUpper c then some (c :: r.takeWhile isAlnum, r.dropWhile isAlnum) else none

/-- one iteration of `( [-]* [a-zA-Z0-9] )` -/
def labelStep (s : Input) : Option (Str × Input) :=
  match s.dropWhile (· == '-') with
  | d :: r => if isAlnum d then some (s.takeWhile (· == '-') ++ [d], r) else none
  | [] => none

/-- one iteration of `( [.] [A-Za-z0-9] ([-]*[A-Za-z0-9])* )` -/
def dotLabelF (n : Nat) : Input → Option (Str × Input)
  | c :: d :: r =>
    if c = '.' && isAlnum d then let q := manyF labelStep n r; some (c :: d :: q.1, q.2) else none
  | _ => none

/-- rule `interface_name`:
    [A-Za-z] ([-]*[A-Za-z0-9])* ( [.] [A-Za-z0-9] ([-]*[A-Za-z0-9])* )+ -/
def interfaceNameF (n : Nat) : Input → Option (Str × Input)
  | [] => none
  | c :: r =>
    if isAlpha c then
      let q := manyF labelStep n r
      match dotLabelF n q.2 with
      | some (t1, r1) => let q2 := manyF (dotLabelF n) n r1; some (c :: q.1 ++ t1 ++ q2.1, q2.2)
      | none => none
    else none

/-- the lexical rules with the fuel `parse` would supply -/
def fieldName (s : Input) : Option (Str × Input) := fieldNameF s.length s
def interfaceName (s : Input) : Option (Str × Input) := interfaceNameF s.length s

/-- a single expected character `['x']` -/
def chr (x : Char) : Input → Option Input
  | c :: r => if c = x then some r else none
  | [] => none

/-! ### types -/

/-- the separator of `venum`: ',' wce* -/
def enumSep (n : Nat) : Input → Option Input := fun x => (chr ',' x).map fun y => (wceStarF n y).2

/-- rule `venum`: '(' wce* field_name ** (',' wce*) wce* ')' -/
def venumF (n : Nat) (s : Input) : Option (List Str × Input) :=
  match chr '(' s with
  | none => none
  | some s1 =>
    let q := sepByF (fieldNameF n) (enumSep n) n (wceStarF n s1).2
    match chr ')' (wceStarF n q.2).2 with
    | some r => some (q.1, r)
    | none => none

/-- rule `object_field`: wce* field_name wce* ':' wce* type_ -/
def objectFieldF (n : Nat) (ty : Input → Option (Ty × Input)) (s : Input) : Option ((Str × Ty) × Input) :=
  match fieldNameF n (wceStarF n s).2 with
  | none => none
  | some (f, s1) =>
    match chr ':' (wceStarF n s1).2 with
    | none => none
    | some s2 =>
      match ty (wceStarF n s2).2 with
      | none => none
      | some (t, r) => some ((f, t), r)

/-- rule `vstruct`: '(' wce* object_field ** ',' wce* ')' -/
def vstructF (n : Nat) (ty : Input → Option (Ty × Input)) (s : Input) : Option (Fields × Input) :=
  match chr '(' s with
  | none => none
  | some s1 =>
    let q := sepByF (objectFieldF n ty) (chr ',') n (wceStarF n s1).2
    match chr ')' (wceStarF n q.2).2 with
    | some r => some (Fields.ofList q.1, r)
    | none => none

/-- rule `btype` -/
def btypeF (n : Nat) (ty : Input → Option (Ty × Input)) (s : Input) : Option (Ty × Input) :=
  match lit ['b', 'o', 'o', 'l'] s with
  | some r => some (.bool, r)
  | none =>
  match lit ['i', 'n', 't'] s with
  | some r => some (.int, r)
  | none =>
  match lit ['f', 'l', 'o', 'a', 't'] s with
  | some r => some (.float, r)
  | none =>
  match lit ['s', 't', 'r', 'i', 'n', 'g'] s with
  | some r => some (.string, r)
  | none =>
  match lit ['o', 'b', 'j', 'e', 'c', 't'] s with
  | some r => some (.object, r)
  | none =>
  match name s with
  | some (t, r) => some (.typename t, r)
  | none =>
  match vstructF n ty s with
  | some (f, r) => some (.struct f, r)
  | none =>
  match venumF n s with
  | some (e, r) => some (.enum e, r)
  | none => none

/-- rule `type_` (six alternatives, in order) -/
def typeF : Nat → Input → Option (Ty × Input)
  | 0, _ => none
  | n + 1, s =>
    match btypeF n (typeF n) s with
    | some x => some x
    | none =>
    match (lit ['[', ']'] s).bind (typeF n) with
    | some (t, r) => some (.array t, r)
    | none =>
    match (lit ['[', 's', 't', 'r', 'i', 'n', 'g', ']'] s).bind (typeF n) with
    | some (t, r) => some (.dict t, r)
    | none =>
    match (lit ['?'] s).bind (btypeF n (typeF n)) with
    | some (t, r) => some (.option t, r)
    | none =>
    match ((lit ['?'] s).bind (lit ['[', ']'])).bind (typeF n) with
    | some (t, r) => some (.option (.array t), r)
    | none =>
    match ((lit ['?'] s).bind (lit ['[', 's', 't', 'r', 'i', 'n', 'g', ']'])).bind (typeF n) with
    | some (t, r) => some (.option (.dict t), r)
    | none => none

/-! ### members -/

/-- `trim_doc` (lib.rs 143-149): the whitespace class without '\t', plus the line terminators -/
def isTrim (c : Char) : Bool :=
  c == ' ' || c == '\n' || c == '\r' || c == '\u00A0' || c == '\uFEFF' || c == '\u1680' || c == '\u180E' ||
  (0x2000 ≤ c.toNat && c.toNat ≤ 0x200A) || c == '\u202F' || c == '\u205F' || c == '\u3000' ||
  c == '\u2028' || c == '\u2029'

def trimDoc (d : Str) : Str :=
  ((d.dropWhile isTrim).reverse.dropWhile isTrim).reverse

/-- d:$(wce()*) KEYWORD wce()+ n:$(name()) wce()*  — the common head of the member rules -/
def memberHeadF (n : Nat) (kw : Str) (s : Input) : Option ((Str × Str) × Input) :=
  let d := wceStarF n s
  match lit kw d.2 with
  | none => none
  | some s1 =>
    match wcePlusF n s1 with
    | none => none
    | some (_, s2) =>
      match name s2 with
      | none => none
      | some (nm, s3) => some ((trimDoc d.1, nm), (wceStarF n s3).2)

/-- rule `vtypedef` (two alternatives: struct body, then enum body) -/
def vtypedefF (n : Nat) (s : Input) : Option (Member × Input) :=
  match (memberHeadF n ['t', 'y', 'p', 'e'] s).bind fun (h, s1) =>
      (vstructF n (typeF n) s1).map fun (v, r) => (Member.mk h.2 h.1 (.typeStruct v), r) with
  | some x => some x
  | none =>
    (memberHeadF n ['t', 'y', 'p', 'e'] s).bind fun (h, s1) =>
      (venumF n s1).map fun (v, r) => (Member.mk h.2 h.1 (.typeEnum v), r)

/-- rule `error` -/
def errorF (n : Nat) (s : Input) : Option (Member × Input) :=
  (memberHeadF n ['e', 'r', 'r', 'o', 'r'] s).bind fun (h, s1) =>
    (vstructF n (typeF n) s1).map fun (v, r) => (Member.mk h.2 h.1 (.error v), r)

/-- rule `method`: … i:vstruct wce* "->" wce* o:vstruct -/
def methodF (n : Nat) (s : Input) : Option (Member × Input) :=
  (memberHeadF n ['m', 'e', 't', 'h', 'o', 'd'] s).bind fun (h, s1) =>
    (vstructF n (typeF n) s1).bind fun (i, s2) =>
      (lit ['-', '>'] (wceStarF n s2).2).bind fun s3 =>
        (vstructF n (typeF n) (wceStarF n s3).2).map fun (o, r) => (Member.mk h.2 h.1 (.method i o), r)

/-- rule `member`: method / vtypedef / error -/
def memberF (n : Nat) (s : Input) : Option (Member × Input) :=
  match methodF n s with
  | some x => some x
  | none =>
    match vtypedefF n s with
    | some x => some x
    | none => errorF n s

/-- the separator of `member() ++ eol()` -/
def eolSep : Input → Option Input := fun x => (eol x).map (·.2)

/-- rule `ParseInterface`:
    d:$(wce()*) "interface" wce()+ n:$interface_name() eol() mt:(member() ++ eol()) wce()* -/
def parseInterfaceF (n : Nat) (s : Input) : Option (Parsed × Input) :=
  let d := wceStarF n s
  match lit ['i', 'n', 't', 'e', 'r', 'f', 'a', 'c', 'e'] d.2 with
  | none => none
  | some s1 =>
    match wcePlusF n s1 with
    | none => none
    | some (_, s2) =>
      match interfaceNameF n s2 with
      | none => none
      | some (nm, s3) =>
        match eol s3 with
        | none => none
        | some (_, s4) =>
          let q := sepByF (memberF n) eolSep n s4
          match q.1 with
          | [] => none
          | m :: ms => some (⟨nm, trimDoc d.1, m :: ms⟩, (wceStarF n q.2).2)

/-- the exported parser function: the rule must match and consume the whole input -/
def parse (s : Input) : Option Parsed :=
  match parseInterfaceF (s.length + 1) s with
  | some (p, []) => some p
  | _ => none

end VV.Idl
