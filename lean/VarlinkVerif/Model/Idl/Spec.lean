/-
Model.Idl.Spec — an executable recogniser for the varlink interface grammar,
written from the property text and the grammar description, *not* from the PEG
functions of `Peg.lean` (it imports only the syntax tree):

* a scanner splits the text into tokens with their leading trivia (maximal runs of
  whitespace, line terminators and terminated `#` comments), words being maximal
  runs of `[A-Za-z0-9_.-]`;
* names are classified by predicates on the whole word (`isInterfaceName`:
  at least two dot-separated elements over `[A-Za-z0-9-]`, none empty, none starting
  or ending with a hyphen, the first starting with a letter);
* an LL(1) parser over the token list builds the tree.

It serves as the independent oracle of `P_C11` and as the reference the PEG model is
proved against, bottom-up, in `Lemmas/IdlSpec.lean` / `Props/C11.lean`.

Layout facts the grammar fixes (and this file states explicitly):
trivia is allowed around every token of a struct/enum except *before a comma* and
*inside a type expression* (`[]`, `[string]`, `?` glue to what follows); a keyword is
followed by at least one trivia element; the interface name and every member but the
last are followed by `whitespace* line-terminator` or immediately by a comment (`eol`);
the documentation of a member is the trivia between that `eol` and its keyword, trimmed.
-/
import VarlinkVerif.Model.Idl.Ast

namespace VV.Idl.Spec

/-! ### characters -/

/-- ECMA-262 7.2 white space as used by the grammar -/
def spaceCodes : List Nat :=
  [0x20, 0x09, 0xA0, 0xFEFF, 0x1680, 0x180E, 0x2000, 0x2001, 0x2002, 0x2003, 0x2004, 0x2005, 0x2006,
   0x2007, 0x2008, 0x2009, 0x200A, 0x202F, 0x205F, 0x3000]

/-- ECMA-262 7.3 line terminators -/
def newlineCodes : List Nat := [0x0A, 0x0D, 0x2028, 0x2029]

def isSpace (c : Char) : Bool := spaceCodes.contains c.toNat
def isNewline (c : Char) : Bool := newlineCodes.contains c.toNat
def isUpperLetter (c : Char) : Bool := 65 ≤ c.toNat && c.toNat ≤ 90
def isLetter (c : Char) : Bool := isUpperLetter c || (97 ≤ c.toNat && c.toNat ≤ 122)
def isLetterOrDigit (c : Char) : Bool := isLetter c || (48 ≤ c.toNat && c.toNat ≤ 57)

/-- what `trim_doc` strips: white space except TAB, and the line terminators -/
def isTrimmed (c : Char) : Bool := (isSpace c && c.toNat != 9) || isNewline c

def trim (d : Str) : Str := ((d.dropWhile isTrimmed).reverse.dropWhile isTrimmed).reverse

/-! ### names -/

def splitOn (sep : Char) : Str → List Str
  | [] => [[]]
  | c :: r =>
    if c = sep then [] :: splitOn sep r
    else match splitOn sep r with
      | l :: ls => (c :: l) :: ls
      | [] => [[c]]

/-- one element of a reverse-domain name: non-empty, letters/digits/hyphens, no hyphen at either end -/
def okElement (e : Str) : Bool :=
  !e.isEmpty && e.all (fun c => isLetterOrDigit c || c == '-') && e.head? != some '-' && e.getLast? != some '-'

def isInterfaceName (w : Str) : Bool :=
  let es := splitOn '.' w
  2 ≤ es.length && es.all okElement && (match w with | c :: _ => isLetter c | [] => false)

/-- type / method / error names: an upper-case letter followed by letters and digits -/
def isTypeName : Str → Bool
  | c :: r => isUpperLetter c && r.all isLetterOrDigit
  | [] => false

/-- after the first letter: letters and digits, each optionally preceded by one underscore -/
def fieldTail : Str → Bool
  | [] => true
  | c :: r =>
    if c = '_' then
      match r with
      | d :: r' => isLetterOrDigit d && fieldTail r'
      | [] => false
    else isLetterOrDigit c && fieldTail r

def isFieldName : Str → Bool
  | c :: r => isLetter c && fieldTail r
  | [] => false

/-! ### scanner -/

inductive TK where
  | word | lpar | rpar | colon | comma | quest | arr | dict | arrow | bad
deriving DecidableEq, Repr

structure Tok where
  /-- the trivia in front of the token -/
  pre : Str
  k : TK
  text : Str
deriving Repr

/-- the rest of a comment after '#': text up to and including the first line-terminator
    character; `none` when the input ends first (an unterminated comment is not trivia) -/
def commentEnd : Input → Option (Str × Input)
  | [] => none
  | c :: r =>
    if isNewline c then some ([c], r)
    else match commentEnd r with
      | some (t, r') => some (c :: t, r')
      | none => none

/-- maximal trivia prefix -/
def triviaF : Nat → Input → Str × Input
  | 0, s => ([], s)
  | _ + 1, [] => ([], [])
  | n + 1, c :: r =>
    if isSpace c || isNewline c then let q := triviaF n r; (c :: q.1, q.2)
    else if c = '#' then
      match commentEnd r with
      | some (t, r') => let q := triviaF n r'; (c :: t ++ q.1, q.2)
      | none => ([], c :: r)
    else ([], c :: r)

def isWordChar (c : Char) : Bool := isLetterOrDigit c || c == '_' || c == '.' || c == '-'

/-- one token at the head of a non-empty input -/
def scanTok (pre : Str) : Input → Tok × Input
  | [] => (⟨pre, .bad, []⟩, [])
  | c :: r =>
    if c = '(' then (⟨pre, .lpar, [c]⟩, r)
    else if c = ')' then (⟨pre, .rpar, [c]⟩, r)
    else if c = ':' then (⟨pre, .colon, [c]⟩, r)
    else if c = ',' then (⟨pre, .comma, [c]⟩, r)
    else if c = '?' then (⟨pre, .quest, [c]⟩, r)
    else if c = '-' && r.head? == some '>' then (⟨pre, .arrow, ['-', '>']⟩, r.drop 1)
    else if c = '[' && r.head? == some ']' then (⟨pre, .arr, ['[', ']']⟩, r.drop 1)
    else if c = '[' && r.take 7 == ['s', 't', 'r', 'i', 'n', 'g', ']'] then (⟨pre, .dict, ['[', 's', 't', 'r', 'i', 'n', 'g', ']']⟩, r.drop 7)
    else if isWordChar c then (⟨pre, .word, c :: r.takeWhile isWordChar⟩, r.dropWhile isWordChar)
    else (⟨pre, .bad, [c]⟩, r)

/-- tokens and the trivia after the last one; scanning stops at the first bad token -/
def scanF : Nat → Input → List Tok × Str
  | 0, _ => ([], [])
  | n + 1, s =>
    let q := triviaF (n + 1) s
    match q.2 with
    | [] => ([], q.1)
    | c :: r =>
      let t := scanTok q.1 (c :: r)
      if t.1.k = .bad then ([t.1], [])
      else let rest := scanF n t.2; (t.1 :: rest.1, rest.2)

def scan (s : Input) : List Tok × Str := scanF (s.length + 1) s

/-! ### parser over tokens -/

def isWord (t : Tok) (w : String) : Bool := t.k = .word && t.text = w.toList

/-- a token that must follow its predecessor without trivia -/
def glued (t : Tok) : Bool := t.pre.isEmpty

mutual
/-- a type expression starting at the head token (whose own leading trivia is the caller's business) -/
def pTypeF : Nat → List Tok → Option (Ty × List Tok)
  | 0, _ => none
  | _ + 1, [] => none
  | n + 1, t :: ts =>
    match t.k with
    | .quest =>
      match ts with
      | u :: _ =>
        if glued u && u.k ≠ .quest then (pTypeF n ts).map fun (ty, r) => (.option ty, r) else none
      | [] => none
    | .arr =>
      match ts with
      | u :: _ => if glued u then (pTypeF n ts).map fun (ty, r) => (.array ty, r) else none
      | [] => none
    | .dict =>
      match ts with
      | u :: _ => if glued u then (pTypeF n ts).map fun (ty, r) => (.dict ty, r) else none
      | [] => none
    | .word =>
      if t.text = ['b', 'o', 'o', 'l'] then some (.bool, ts)
      else if t.text = ['i', 'n', 't'] then some (.int, ts)
      else if t.text = ['f', 'l', 'o', 'a', 't'] then some (.float, ts)
      else if t.text = ['s', 't', 'r', 'i', 'n', 'g'] then some (.string, ts)
      else if t.text = ['o', 'b', 'j', 'e', 'c', 't'] then some (.object, ts)
      else if isTypeName t.text then some (.typename t.text, ts)
      else none
    | .lpar => pParenF n ts
    | _ => none
/-- after '(' : `)` | field `:` … (struct) | field (`,` field)* `)` (enum) -/
def pParenF : Nat → List Tok → Option (Ty × List Tok)
  | 0, _ => none
  | _ + 1, [] => none
  | n + 1, u :: us =>
    if u.k = .rpar then some (.struct .nil, us)
    else if u.k = .word && isFieldName u.text then
      match us with
      | v :: _ =>
        if v.k = .colon then (pFieldsF n (u :: us)).map fun (f, r) => (.struct f, r)
        else (pEnumF n (u :: us)).map fun (e, r) => (.enum e, r)
      | [] => none
    else none
/-- field `:` type ( `,` field `:` type )* `)` — no trivia before a comma -/
def pFieldsF : Nat → List Tok → Option (Fields × List Tok)
  | 0, _ => none
  | n + 1, u :: v :: ts =>
    if u.k = .word && isFieldName u.text && v.k = .colon then
      match pTypeF n ts with
      | some (ty, w :: r) =>
        if w.k = .rpar then some (.cons u.text ty .nil, r)
        else if w.k = .comma && glued w then
          (pFieldsF n r).map fun (f, r') => (.cons u.text ty f, r')
        else none
      | _ => none
    else none
  | _ + 1, _ => none
/-- field ( `,` field )* `)` — no trivia before a comma -/
def pEnumF : Nat → List Tok → Option (List Str × List Tok)
  | 0, _ => none
  | n + 1, u :: w :: r =>
    if u.k = .word && isFieldName u.text then
      if w.k = .rpar then some ([u.text], r)
      else if w.k = .comma && glued w then (pEnumF n r).map fun (e, r') => (u.text :: e, r')
      else none
    else none
  | _ + 1, _ => none
end

/-- a parenthesised struct `( … )` (enum not allowed) -/
def pStruct (n : Nat) : List Tok → Option (Fields × List Tok)
  | t :: ts =>
    if t.k = .lpar then
      match pParenF n ts with
      | some (.struct f, r) => some (f, r)
      | _ => none
    else none
  | [] => none

/-- the `eol` in front of a member: `whitespace* line-terminator` ("\r\n" counts as one), or a
    comment starting at the very first character; returns the trivia after it -/
def afterEol (pre : Str) : Option Str :=
  match pre.dropWhile isSpace with
  | c :: r =>
    if isNewline c then
      (if c = '\r' && r.head? == some '\n' then some (r.drop 1) else some r)
    else if pre.head? == some '#' then
      match commentEnd (pre.drop 1) with
      | some (t, r') => if t.getLast? == some '\r' && r'.head? == some '\n' then some (r'.drop 1) else some r'
      | none => none
    else none
  | [] => none

/-- one member, given that the head token is its keyword; `doc` is already computed -/
def pMember (n : Nat) (doc : Str) : List Tok → Option (Member × List Tok)
  | kw :: nm :: ts =>
    if nm.k = .word && isTypeName nm.text && !nm.pre.isEmpty then
      if isWord kw "type" then
        match ts with
        | t :: ts' =>
          if t.k = .lpar then
            match pParenF n ts' with
            | some (.struct f, r) => some (⟨nm.text, doc, .typeStruct f⟩, r)
            | some (.enum e, r) => some (⟨nm.text, doc, .typeEnum e⟩, r)
            | _ => none
          else none
        | [] => none
      else if isWord kw "error" then
        (pStruct n ts).map fun (f, r) => (⟨nm.text, doc, .error f⟩, r)
      else if isWord kw "method" then
        match pStruct n ts with
        | some (i, a :: r) =>
          if a.k = .arrow then (pStruct n r).map fun (o, r') => (⟨nm.text, doc, .method i o⟩, r')
          else none
        | _ => none
      else none
    else none
  | _ => none

/-- members separated by `eol`; the first one follows the `eol` after the interface name -/
def pMembersF : Nat → List Tok → Option (List Member)
  | 0, _ => none
  | _ + 1, [] => none
  | n + 1, kw :: ts =>
    match afterEol kw.pre with
    | none => none
    | some d =>
      match pMember (n + 1) (trim d) (kw :: ts) with
      | some (m, []) => some [m]
      | some (m, r) => (pMembersF n r).map (m :: ·)
      | none => none

/-- the whole text -/
def parse (s : Input) : Option Parsed :=
  let sc := scan s
  match sc.1 with
  | kw :: nm :: ts =>
    if isWord kw "interface" && nm.k = .word && !nm.pre.isEmpty && isInterfaceName nm.text then
      (pMembersF (sc.1.length + 1) ts).map fun ms => ⟨nm.text, trim kw.pre, ms⟩
    else none
  | _ => none

/-- names defined more than once, in order of first appearance -/
def duplicates (ms : List Member) : List Str :=
  let names := ms.map (·.name)
  (names.filter fun n => 2 ≤ names.count n).eraseDups

end VV.Idl.Spec
