/-
Model.JsonText — serde_json's text layer, concretely: the compact printer
(`serde_json::to_string(&Value)`) and the parser (`serde_json::from_str::<Value>`),
as resolved by /repo's Cargo.lock (serde_json 1.0.151, features of /repo: no
`arbitrary_precision`, no `preserve_order`, no `unbounded_depth`).

Text is `List Char` (UTF-8 validity of raw bytes is judged elsewhere).  Floats are
opaque (`Json.flt bits`): a `FloatLayer` supplies the text of a float and the value
of a number token that is not an in-range integer token.

Number tokens.  serde_json scans a number character by character; after a number
only whitespace, `,`, `]`, `}` or the end of input may follow, none of which is a
number character.  The model therefore takes the maximal run of `[-+0-9.eE]` and
judges the complete token (`numShape`); this accepts exactly the same documents.

`parseRaw` yields the raw tree (objects in document order, duplicate keys kept: what
the streaming deserializer of `from_str::<T>` walks through); `parse` is
`from_str::<Value>`: the raw tree normalised (`BTreeMap`: keys sorted, the last
duplicate wins) = `Json.norm`.

Recursion limit: `remaining_depth` starts at 128, every `[` / `{` decrements it and
fails when it reaches 0: 127 nested containers are accepted, 128 are not (measured
by suite `jsontext`).

Imports only Model files (core only) so that the driver links.
-/
import VarlinkVerif.Model.Json
import VarlinkVerif.Model.Serde

namespace VV.JsonText
open VV

/-- the float part of the text layer: `fprint bits` is the text `to_string` writes
    for a finite f64; `fparse tok` gets a complete number token (`none` = "number out
    of range") -/
structure FloatLayer where
  fprint : Nat → List Char
  fparse : List Char → Option Nat

/-! ### printer -/

def hexDigit (n : Nat) : Char :=
  if n < 10 then Char.ofNat (48 + n) else Char.ofNat (87 + n)

/-- serde_json's `ESCAPE` table -/
def escChar (c : Char) : List Char :=
  if c = '"' then ['\\', '"']
  else if c = '\\' then ['\\', '\\']
  else if c.toNat = 8 then ['\\', 'b']
  else if c.toNat = 12 then ['\\', 'f']
  else if c.toNat = 10 then ['\\', 'n']
  else if c.toNat = 13 then ['\\', 'r']
  else if c.toNat = 9 then ['\\', 't']
  else if c.toNat < 32 then ['\\', 'u', '0', '0', hexDigit (c.toNat / 16), hexDigit (c.toNat % 16)]
  else [c]

def escChars : List Char → List Char
  | [] => []
  | c :: cs => escChar c ++ escChars cs

def printStr (s : String) : List Char := '"' :: (escChars s.toList ++ ['"'])

def digitChar (n : Nat) : Char := Char.ofNat (48 + n)

/-- decimal digits, most significant first (`fuel` ≥ number of digits) -/
def natDigitsAux : Nat → Nat → List Char → List Char
  | 0, _, acc => acc
  | f + 1, n, acc =>
    if n < 10 then digitChar n :: acc else natDigitsAux f (n / 10) (digitChar (n % 10) :: acc)

def natDigits (n : Nat) : List Char := natDigitsAux (n + 1) n []

def printInt : Int → List Char
  | .ofNat n => natDigits n
  | .negSucc n => '-' :: natDigits (n + 1)

variable (F : FloatLayer)

mutual
  /-- `serde_json::to_string(&Value)`: compact, members in list order -/
  def print : Json → List Char
    | .null => ['n', 'u', 'l', 'l']
    | .bool true => ['t', 'r', 'u', 'e']
    | .bool false => ['f', 'a', 'l', 's', 'e']
    | .int i => printInt i
    | .flt b => F.fprint b
    | .str s => printStr s
    | .arr [] => ['[', ']']
    | .arr (x :: xs) => '[' :: (print x ++ printTail xs)
    | .obj [] => ['{', '}']
    | .obj ((k, v) :: xs) => '{' :: (printStr k ++ ':' :: (print v ++ printMTail xs))
  def printTail : List Json → List Char
    | [] => [']']
    | x :: xs => ',' :: (print x ++ printTail xs)
  def printMTail : List (String × Json) → List Char
    | [] => ['}']
    | (k, v) :: xs => ',' :: (printStr k ++ ':' :: (print v ++ printMTail xs))
end

/-! ### parser -/

def isWs (c : Char) : Bool := c = ' ' || c = '\t' || c = '\n' || c = '\r'

def skipWs : List Char → List Char
  | [] => []
  | c :: cs => if isWs c then skipWs cs else c :: cs

def isDig (c : Char) : Bool := 48 ≤ c.toNat && c.toNat ≤ 57

/-- the characters a number token is made of -/
def isNumChar (c : Char) : Bool :=
  isDig c || c = '-' || c = '+' || c = '.' || c = 'e' || c = 'E'

def spanNum : List Char → List Char × List Char
  | [] => ([], [])
  | c :: cs => if isNumChar c then ((c :: (spanNum cs).1), (spanNum cs).2) else ([], c :: cs)

def dropDigits : List Char → List Char
  | [] => []
  | c :: cs => if isDig c then dropDigits cs else c :: cs

/-- at least one digit, then the rest -/
def digits1 : List Char → Option (List Char)
  | [] => none
  | c :: cs => if isDig c then some (dropDigits cs) else none

/-- `[eE][+-]?[0-9]+` up to the end of the token -/
def expShape : List Char → Bool
  | [] => false
  | c :: cs =>
    if c = 'e' || c = 'E' then
      match cs with
      | [] => false
      | s :: ds => if s = '+' || s = '-' then digits1 ds == some [] else digits1 (s :: ds) == some []
    else false

/-- after the integer part: `some false` = nothing follows (integer syntax),
    `some true` = a well-formed fraction and/or exponent follows -/
def fracExpShape : List Char → Option Bool
  | [] => some false
  | c :: cs =>
    if c = '.' then
      match digits1 cs with
      | none => none
      | some [] => some true
      | some r => if expShape r then some true else none
    else if expShape (c :: cs) then some true else none

/-- `(0|[1-9][0-9]*)` then fraction/exponent -/
def unsignedShape : List Char → Option Bool
  | [] => none
  | c :: cs =>
    if c = '0' then fracExpShape cs
    else if isDig c then fracExpShape (dropDigits cs)
    else none

/-- shape of a complete number token: `none` malformed, `some false` integer
    syntax, `some true` float syntax -/
def numShape : List Char → Option Bool
  | [] => none
  | c :: cs => if c = '-' then unsignedShape cs else unsignedShape (c :: cs)

def natOfDigits : List Char → Nat → Nat
  | [], acc => acc
  | c :: cs, acc => natOfDigits cs (acc * 10 + (c.toNat - 48))

def fltTok (tok : List Char) : Option Json := (F.fparse tok).map Json.flt

/-- the value of a complete number token -/
def parseNumTok (tok : List Char) : Option Json :=
  match numShape tok with
  | none => none
  | some true => fltTok F tok
  | some false =>
    match tok with
    | [] => none
    | c :: ds =>
      if c = '-' then
        let n := natOfDigits ds 0
        -- "-0" is the float -0.0; below i64::MIN the token is a float
        if n = 0 then fltTok F tok
        else if n ≤ 9223372036854775808 then some (.int (Int.negSucc (n - 1)))
        else fltTok F tok
      else
        let n := natOfDigits (c :: ds) 0
        if n < 18446744073709551616 then some (.int (Int.ofNat n)) else fltTok F tok

def hexVal (c : Char) : Option Nat :=
  if 48 ≤ c.toNat ∧ c.toNat ≤ 57 then some (c.toNat - 48)
  else if 97 ≤ c.toNat ∧ c.toNat ≤ 102 then some (c.toNat - 87)
  else if 65 ≤ c.toNat ∧ c.toNat ≤ 70 then some (c.toNat - 55)
  else none

def hex4 : List Char → Option (Nat × List Char)
  | a :: b :: c :: d :: r =>
    match hexVal a, hexVal b, hexVal c, hexVal d with
    | some a, some b, some c, some d => some (a * 4096 + b * 256 + c * 16 + d, r)
    | _, _, _, _ => none
  | _ => none

/-- the escape after a backslash -/
def readEscape : List Char → Option (Char × List Char)
  | [] => none
  | c :: r =>
    if c = '"' then some ('"', r)
    else if c = '\\' then some ('\\', r)
    else if c = '/' then some ('/', r)
    else if c = 'b' then some (Char.ofNat 8, r)
    else if c = 'f' then some (Char.ofNat 12, r)
    else if c = 'n' then some (Char.ofNat 10, r)
    else if c = 'r' then some (Char.ofNat 13, r)
    else if c = 't' then some (Char.ofNat 9, r)
    else if c = 'u' then
      match hex4 r with
      | none => none
      | some (n1, r1) =>
        if 0xD800 ≤ n1 ∧ n1 ≤ 0xDBFF then
          match r1 with
          | b :: u :: r2 =>
            if b = '\\' ∧ u = 'u' then
              match hex4 r2 with
              | none => none
              | some (n2, r3) =>
                if 0xDC00 ≤ n2 ∧ n2 ≤ 0xDFFF then
                  some (Char.ofNat (0x10000 + (n1 - 0xD800) * 0x400 + (n2 - 0xDC00)), r3)
                else none
            else none
          | _ => none
        else if 0xDC00 ≤ n1 ∧ n1 ≤ 0xDFFF then none
        else some (Char.ofNat n1, r1)
    else none

/-- a string after its opening quote, up to and including the closing quote -/
def parseStrBody : Nat → List Char → Option (List Char × List Char)
  | 0, _ => none
  | _ + 1, [] => none
  | f + 1, c :: r =>
    if c = '"' then some ([], r)
    else if c = '\\' then
      match readEscape r with
      | none => none
      | some (x, r1) =>
        match parseStrBody f r1 with
        | none => none
        | some (xs, r2) => some (x :: xs, r2)
    else if c.toNat < 32 then none
    else
      match parseStrBody f r with
      | none => none
      | some (xs, r2) => some (c :: xs, r2)

/-- a string token including the opening quote -/
def parseStr : List Char → Option (String × List Char)
  | [] => none
  | c :: r =>
    if c = '"' then
      match parseStrBody (r.length + 1) r with
      | none => none
      | some (xs, r1) => some (String.ofList xs, r1)
    else none

def expectLit (lit : List Char) (v : Json) (s : List Char) : Option (Json × List Char) :=
  if lit.isPrefixOf s then some (v, s.drop lit.length) else none

mutual
  /-- one value (leading whitespace allowed); `d` is serde_json's `remaining_depth` -/
  def parseVal : Nat → Nat → List Char → Option (Json × List Char)
    | 0, _, _ => none
    | f + 1, d, s =>
      match skipWs s with
      | [] => none
      | c :: cs =>
        if c = 'n' then expectLit ['u', 'l', 'l'] .null cs
        else if c = 't' then expectLit ['r', 'u', 'e'] (.bool true) cs
        else if c = 'f' then expectLit ['a', 'l', 's', 'e'] (.bool false) cs
        else if c = '"' then
          match parseStr (c :: cs) with
          | none => none
          | some (x, r) => some (.str x, r)
        else if c = '-' || isDig c then
          match parseNumTok F (spanNum (c :: cs)).1 with
          | none => none
          | some j => some (j, (spanNum (c :: cs)).2)
        else if c = '[' then
          if d ≤ 1 then none else
          match skipWs cs with
          | [] => none
          | c1 :: r1 =>
            if c1 = ']' then some (.arr [], r1)
            else
              match parseVal f (d - 1) (c1 :: r1) with
              | none => none
              | some (v, r2) =>
                match parseTail f (d - 1) r2 with
                | none => none
                | some (l, r3) => some (.arr (v :: l), r3)
        else if c = '{' then
          if d ≤ 1 then none else
          match skipWs cs with
          | [] => none
          | c1 :: r1 =>
            if c1 = '}' then some (.obj [], r1)
            else
              match parseStr (c1 :: r1) with
              | none => none
              | some (k, r2) =>
                match skipWs r2 with
                | [] => none
                | c2 :: r3 =>
                  if c2 = ':' then
                    match parseVal f (d - 1) r3 with
                    | none => none
                    | some (v, r4) =>
                      match parseMTail f (d - 1) r4 with
                      | none => none
                      | some (l, r5) => some (.obj ((k, v) :: l), r5)
                  else none
        else none
  /-- after an array element: `]` or `,` value … -/
  def parseTail : Nat → Nat → List Char → Option (List Json × List Char)
    | 0, _, _ => none
    | f + 1, d, s =>
      match skipWs s with
      | [] => none
      | c :: r =>
        if c = ']' then some ([], r)
        else if c = ',' then
          match parseVal f d r with
          | none => none
          | some (v, r1) =>
            match parseTail f d r1 with
            | none => none
            | some (l, r2) => some (v :: l, r2)
        else none
  /-- after an object member: `}` or `,` "key" `:` value … -/
  def parseMTail : Nat → Nat → List Char → Option (List (String × Json) × List Char)
    | 0, _, _ => none
    | f + 1, d, s =>
      match skipWs s with
      | [] => none
      | c :: r =>
        if c = '}' then some ([], r)
        else if c = ',' then
          match parseStr (skipWs r) with
          | none => none
          | some (k, r2) =>
            match skipWs r2 with
            | [] => none
            | c2 :: r3 =>
              if c2 = ':' then
                match parseVal f d r3 with
                | none => none
                | some (v, r4) =>
                  match parseMTail f d r4 with
                  | none => none
                  | some (l, r5) => some ((k, v) :: l, r5)
              else none
        else none
end

/-- serde_json's recursion limit (`remaining_depth` of a fresh `Deserializer`) -/
def depthLimit : Nat := 128

/-- fuel that always suffices for a text of this length -/
def fuelFor (s : List Char) : Nat := 2 * s.length + 2

/-- the raw tree of a document (objects in document order, duplicates kept); only
    whitespace may follow the value -/
def parseRawD (d : Nat) (s : List Char) : Option Json :=
  match parseVal F (fuelFor s) d s with
  | none => none
  | some (j, r) => if (skipWs r).isEmpty then some j else none

def parseRaw (s : List Char) : Option Json := parseRawD F depthLimit s

/-- `serde_json::from_str::<Value>` with recursion limit `d` -/
def parseD (d : Nat) (s : List Char) : Option Json := (parseRawD F d s).map Json.norm

/-- `serde_json::from_str::<Value>` -/
def parse (s : List Char) : Option Json := parseD F depthLimit s

/-- the concrete text layer in the sense of Model.Serde: `parse` of a `TextLayer` is
    the raw tree the streaming deserializer walks through (`fromText` decodes it,
    `fromTextViaValue` normalises it first) -/
def jsonLayer : TextLayer (List Char) := { print := print F, parse := parseRaw F }

/-- `serde_json::from_str::<varlink::Request>` = the concrete request decoder
    (`decode` walks the raw tree: a duplicate known member is an error there) -/
def decodeRequestText (cvt : Int → Nat) (s : List Char) : Option Request :=
  (parseRaw F s).bind (decodeRequest cvt)

/-- the concrete instance of the decoder parameter `dec : Bytes → Frame` of
    Model.Wire / ListenWorker / Proxy: `serde_json::from_slice::<Request>`.  `utf8`
    is the UTF-8 decoding of the frame (`none` = invalid; judged on raw bytes
    elsewhere, see Pred.Wire) -/
def decFrame (cvt : Int → Nat) (utf8 : Bytes → Option (List Char)) (b : Bytes) : Frame :=
  match utf8 b with
  | none => .bad
  | some s =>
    match decodeRequestText F cvt s with
    | some r => .req r
    | none => .bad

/-! ### which trees come back -/

def intInRange (i : Int) : Bool :=
  decide (-9223372036854775808 ≤ i) && decide (i < 18446744073709551616)

mutual
  /-- `fits d j`: nesting stays within `remaining_depth = d`, integers are i64/u64 -/
  def fits : Nat → Json → Bool
    | _, .int i => intInRange i
    | d, .arr l => decide (1 < d) && fitsList (d - 1) l
    | d, .obj l => decide (1 < d) && fitsObj (d - 1) l
    | _, _ => true
  def fitsList : Nat → List Json → Bool
    | _, [] => true
    | d, x :: xs => fits d x && fitsList d xs
  def fitsObj : Nat → List (String × Json) → Bool
    | _, [] => true
    | d, (_, v) :: xs => fits d v && fitsObj d xs
end

/-- a raw tree (members in any order) whose text the parser accepts: nesting below
    the recursion limit (at most 127 containers deep), integers within [-2^63, 2^64) -/
def RawPrintable (j : Json) : Prop := fits depthLimit j = true

instance (j : Json) : Decidable (RawPrintable j) := by unfold RawPrintable; infer_instance

/-- a `serde_json::Value` that `from_str::<Value>` rebuilds: `RawPrintable`, and
    every object has strictly ascending keys (`Json.isNormal`, the `BTreeMap`) -/
def Printable (j : Json) : Prop := fits depthLimit j = true ∧ j.isNormal = true

instance (j : Json) : Decidable (Printable j) := by unfold Printable; infer_instance

/-- a float token: number characters only, float (or out-of-integer-range) as the
    parser classifies it, and the float layer gives the bits back -/
def floatTokOk (b : Nat) : Bool :=
  (F.fprint b).all isNumChar && decide (parseNumTok F (F.fprint b) = some (.flt b))

mutual
  def faithful : Json → Bool
    | .flt b => floatTokOk F b
    | .arr l => faithfulList l
    | .obj l => faithfulObj l
    | _ => true
  def faithfulList : List Json → Bool
    | [] => true
    | x :: xs => faithful x && faithfulList xs
  def faithfulObj : List (String × Json) → Bool
    | [] => true
    | (_, v) :: xs => faithful v && faithfulObj xs
end

def FloatLayer.Faithful (j : Json) : Prop := faithful F j = true

instance (j : Json) : Decidable (FloatLayer.Faithful F j) := by unfold FloatLayer.Faithful; infer_instance

end VV.JsonText
