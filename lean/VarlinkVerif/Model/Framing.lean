/-
Model.Framing — NUL framing of a byte stream: `splitNul` (first NUL) and `frames`
(all complete messages + the tail), as structurally recursive definitions that
the theorems talk about, followed by tail-recursive implementations for the
compiled driver (multi-megabyte messages would overflow the stack otherwise).
`@[csimp]` makes every later definition compile against the fast versions; the
two equalities are proved here, not assumed.
-/
namespace VV

abbrev Bytes := List UInt8

/-- split at the first NUL: `(before, after)` -/
def splitNul : Bytes → Option (Bytes × Bytes)
  | [] => none
  | b :: bs =>
    if b = 0 then some ([], bs)
    else match splitNul bs with
      | some (pre, post) => some (b :: pre, post)
      | none => none

/-- all complete NUL-terminated messages of a stream, and the bytes after the
    last NUL -/
def frames : Bytes → List Bytes × Bytes
  | [] => ([], [])
  | b :: bs =>
    let (ms, t) := frames bs
    if b = 0 then ([] :: ms, t)
    else match ms with
      | [] => ([], b :: t)
      | m :: ms' => ((b :: m) :: ms', t)

/-! ### implementations for compiled code -/

def splitNulGo : Bytes → Bytes → Option (Bytes × Bytes)
  | [], _ => none
  | b :: bs, acc => if b = 0 then some (acc.reverse, bs) else splitNulGo bs (b :: acc)

def splitNulFast (bs : Bytes) : Option (Bytes × Bytes) := splitNulGo bs []

theorem splitNulGo_eq (bs acc : Bytes) :
    splitNulGo bs acc = (splitNul bs).map (fun pq => (acc.reverse ++ pq.1, pq.2)) := by
  induction bs generalizing acc with
  | nil => simp [splitNulGo, splitNul]
  | cons b bs ih =>
    simp only [splitNulGo, splitNul]
    by_cases hb : b = 0
    · simp [hb]
    · simp only [hb, if_false]
      rw [ih]
      cases splitNul bs with
      | none => simp
      | some pq => simp

@[csimp] theorem splitNul_eq_fast : @splitNul = @splitNulFast := by
  funext bs
  simp only [splitNulFast, splitNulGo_eq]
  cases splitNul bs with
  | none => simp
  | some pq => simp

/-- `cur` = the current message reversed, `done` = the finished messages reversed -/
def framesGo : Bytes → Bytes → List Bytes → List Bytes × Bytes
  | [], cur, done => (done.reverse, cur.reverse)
  | b :: bs, cur, done =>
    if b = 0 then framesGo bs [] (cur.reverse :: done) else framesGo bs (b :: cur) done

def framesFast (bs : Bytes) : List Bytes × Bytes := framesGo bs [] []

/-- what `frames` does to a stream that continues an unfinished message `cur` -/
theorem framesGo_eq (bs cur : Bytes) (done : List Bytes) :
    framesGo bs cur done =
      (done.reverse ++ (match (frames bs).1 with
                        | [] => []
                        | m :: ms => (cur.reverse ++ m) :: ms),
       match (frames bs).1 with
       | [] => cur.reverse ++ (frames bs).2
       | _ :: _ => (frames bs).2) := by
  induction bs generalizing cur done with
  | nil => simp [framesGo, frames]
  | cons b bs ih =>
    simp only [framesGo, frames]
    by_cases hb : b = 0
    · simp only [hb, if_true]
      rw [ih]
      cases h : (frames bs).1 with
      | nil => simp
      | cons m ms => simp
    · simp only [hb, if_false]
      rw [ih]
      cases h : (frames bs).1 with
      | nil => simp
      | cons m ms => simp

@[csimp] theorem frames_eq_fast : @frames = @framesFast := by
  funext bs
  simp only [framesFast, framesGo_eq]
  cases h : (frames bs).1 with
  | nil =>
    simp
    rw [← h]
  | cons m ms =>
    simp
    rw [← h]

end VV
