/-
Model.Gen — the code generator (`varlink_generator/src/lib.rs`) and the serde
semantics of the types it emits.

Part 1 (C08): `Ty` (IDL type syntax), typed values `Val` (one constructor per
Rust type the generator maps to), `encode`/`decode` = what
`#[derive(Serialize, Deserialize)]` does for exactly the emitted type shapes when
driven by `serde_json::to_value` / `from_value`, `requestOf`, `dispatch`,
`replyOf`, `errorReplyOf`, `clientOutcome`.

Part 2 (C09) is in `Model/GenEmit.lean`.

Serialisation is value-directed (serde's `Serialize` impl is fixed by the Rust
type, and `Val` has one constructor per Rust type), so `encode` takes no `Ty`;
the only type-dependent rule — `skip_serializing_if = "Option::is_none"` on the
direct members of `*_Args` / `*_Reply` / error-args structs — is `encodeTop`.
Deserialisation is type-directed: `decode env t j`.

Floats are bit patterns (`Nat`); no theorem computes with them.  The one place
the implementation converts (a JSON integer given for a `float`) is
`f64OfInt`, exact round-to-nearest-even, tied by the correspondence run only.
-/
import VarlinkVerif.Model.Json

namespace VV
namespace Gen

inductive Ty where
  | bool | int | float | string | object
  | ref (n : String)
  | struct (fs : List (String × Ty))
  | enum (vs : List String)
  | arr (t : Ty)
  | map (t : Ty)
  | opt (t : Ty)
deriving Repr, Inhabited

inductive Val where
  | bool (b : Bool)
  | int (i : Int)
  | flt (bits : Nat)
  | str (s : String)
  | json (j : Json)
  | none
  | some (v : Val)
  | arr (l : List Val)
  | map (l : List (String × Val))
  | set (l : List String)
  | record (l : List (String × Val))
  | enum (v : String)
deriving Repr, Inhabited

/-- typedef name ↦ definition (always `struct` or `enum`: the grammar has no aliases) -/
abbrev Env := List (String × Ty)

def lookupTy (n : String) : List (String × Ty) → Option Ty
  | [] => none
  | (k, t) :: rest => if k = n then some t else lookupTy n rest

/-- one step: a reference becomes its definition -/
def resolve (env : Env) : Ty → Ty
  | .ref n => match lookupTy n env with
    | some d => d
    | none => .ref n
  | t => t

def isOpt : Ty → Bool
  | .opt _ => true
  | _ => false

/-! ### equality on values (for the model's "server saw what was sent" flag) -/

namespace Val
mutual
  def beq : Val → Val → Bool
    | .bool a, .bool b => a == b
    | .int a, .int b => a == b
    | .flt a, .flt b => a == b
    | .str a, .str b => a == b
    | .json a, .json b => decide (a = b)
    | .none, .none => true
    | .some a, .some b => beq a b
    | .arr a, .arr b => beqList a b
    | .map a, .map b => beqKV a b
    | .set a, .set b => a == b
    | .record a, .record b => beqKV a b
    | .enum a, .enum b => a == b
    | _, _ => false
  def beqList : List Val → List Val → Bool
    | [], [] => true
    | x :: xs, y :: ys => beq x y && beqList xs ys
    | _, _ => false
  def beqKV : List (String × Val) → List (String × Val) → Bool
    | [], [] => true
    | (k, x) :: xs, (l, y) :: ys => k == l && beq x y && beqKV xs ys
    | _, _ => false
end
instance : BEq Val := ⟨beq⟩

mutual
  theorem beq_refl : ∀ v : Val, beq v v = true
    | .bool _ => by simp [beq]
    | .int _ => by simp [beq]
    | .flt _ => by simp [beq]
    | .str _ => by simp [beq]
    | .json _ => by simp [beq]
    | .none => by simp [beq]
    | .some v => by simp [beq, beq_refl v]
    | .arr l => by simp [beq, beqList_refl l]
    | .map l => by simp [beq, beqKV_refl l]
    | .set _ => by simp [beq]
    | .record l => by simp [beq, beqKV_refl l]
    | .enum _ => by simp [beq]
  theorem beqList_refl : ∀ l : List Val, beqList l l = true
    | [] => rfl
    | x :: xs => by simp [beqList, beq_refl x, beqList_refl xs]
  theorem beqKV_refl : ∀ l : List (String × Val), beqKV l l = true
    | [] => rfl
    | (k, x) :: xs => by simp [beqKV, beq_refl x, beqKV_refl xs]
end

mutual
  theorem eq_of_beq : ∀ a b : Val, beq a b = true → a = b
    | .bool _, b => by cases b <;> simp [beq]
    | .int _, b => by cases b <;> simp [beq]
    | .flt _, b => by cases b <;> simp [beq]
    | .str _, b => by cases b <;> simp [beq]
    | .json _, b => by cases b <;> simp [beq]
    | .none, b => by cases b <;> simp [beq]
    | .some x, b => by
        cases b <;> simp [beq]
        exact eq_of_beq x _
    | .arr x, b => by
        cases b <;> simp [beq]
        exact eq_of_beqList x _
    | .map x, b => by
        cases b <;> simp [beq]
        exact eq_of_beqKV x _
    | .set _, b => by cases b <;> simp [beq]
    | .record x, b => by
        cases b <;> simp [beq]
        exact eq_of_beqKV x _
    | .enum _, b => by cases b <;> simp [beq]
  theorem eq_of_beqList : ∀ a b : List Val, beqList a b = true → a = b
    | [], b => by cases b <;> simp [beqList]
    | x :: xs, b => by
        cases b with
        | nil => simp [beqList]
        | cons y ys =>
          simp [beqList]
          intro h1 h2
          exact ⟨eq_of_beq x y h1, eq_of_beqList xs ys h2⟩
  theorem eq_of_beqKV : ∀ a b : List (String × Val), beqKV a b = true → a = b
    | [], b => by cases b <;> simp [beqKV]
    | (k, x) :: xs, b => by
        cases b with
        | nil => simp [beqKV]
        | cons y ys =>
          obtain ⟨l, y⟩ := y
          simp [beqKV]
          intro h0 h1 h2
          exact ⟨⟨h0, eq_of_beq x y h1⟩, eq_of_beqKV xs ys h2⟩
end

instance : DecidableEq Val := fun a b =>
  if h : beq a b = true then isTrue (eq_of_beq a b h)
  else isFalse (fun e => h (e ▸ beq_refl a))
end Val

/-! ### numbers -/

def i64Min : Int := -9223372036854775808
def i64Max : Int := 9223372036854775807
def u64Max : Int := 18446744073709551615

def inI64 (i : Int) : Bool := decide (i64Min ≤ i) && decide (i ≤ i64Max)
/-- what serde_json keeps as an integer `Number` (`PosInt`/`NegInt`) -/
def inJsonInt (i : Int) : Bool := decide (i64Min ≤ i) && decide (i ≤ u64Max)

/-- IEEE-754 binary64: exponent field all ones = NaN / ±inf -/
def finiteBits (b : Nat) : Bool := (b / 4503599627370496) % 2048 != 2047

/-- number of binary digits -/
def bitLen (n : Nat) : Nat := if n = 0 then 0 else Nat.log2 n + 1

/-- `n as f64` for a natural number: round to nearest, ties to even -/
def f64OfNat (n : Nat) : Nat :=
  if n = 0 then 0 else
  let len := bitLen n
  if len ≤ 53 then
    -- exact: mantissa = n shifted so that the leading one is bit 52
    let m := n * 2 ^ (53 - len)
    (1023 + (len - 1)) * 4503599627370496 + (m - 4503599627370496)
  else
    let sh := len - 53
    let q := n / 2 ^ sh
    let r := n % 2 ^ sh
    let half := 2 ^ (sh - 1)
    let q' := if r > half || (r == half && q % 2 == 1) then q + 1 else q
    -- rounding may carry into the next binade
    if q' = 9007199254740992 then (1023 + len) * 4503599627370496
    else (1023 + (len - 1)) * 4503599627370496 + (q' - 4503599627370496)

def f64OfInt (i : Int) : Nat :=
  if i < 0 then 9223372036854775808 + f64OfNat i.natAbs else f64OfNat i.natAbs

/-! ### encode (`serde_json::to_value`) -/

mutual
  def encode : Val → Json
    | .bool b => .bool b
    | .int i => .int i
    | .flt b => if finiteBits b then .flt b else .null
    | .str s => .str s
    | .json j => j
    | .none => .null
    | .some v => encode v
    | .arr l => .arr (encodeList l)
    | .map l => .obj (encodeKV l)
    | .set l => .obj (l.map fun k => (k, Json.obj []))
    | .record l => .obj (encodeKV l)
    | .enum v => .str v
  def encodeList : List Val → List Json
    | [] => []
    | x :: xs => encode x :: encodeList xs
  def encodeKV : List (String × Val) → List (String × Json)
    | [] => []
    | (k, x) :: xs => (k, encode x) :: encodeKV xs
end

def isNone : Val → Bool
  | .none => true
  | _ => false

/-- members of a `*_Args` / `*_Reply` / error-args struct: `None` members are omitted -/
def encodeTopKV : List (String × Val) → List (String × Json)
  | [] => []
  | (k, x) :: xs => if isNone x then encodeTopKV xs else (k, encode x) :: encodeTopKV xs

def encodeTop : Val → Json
  | .record l => .obj (encodeTopKV l)
  | v => encode v

/-! ### decode (`serde_json::from_value::<T>`) -/

/-- `Option<T>`: null ↦ `None`, anything else is handed to `T` -/
@[inline] def optWrap (t : Ty) (x : Json) (rec : Ty → Option Val) : Option Val :=
  match t with
  | .opt t' => match x with
    | .null => some Val.none
    | _ => (rec t').map Val.some
  | _ => rec t

/-- the member type `struct Empty {}` of `StringHashSet`'s visitor: any object, or `[]` -/
def isEmptyStructJson : Json → Bool
  | .obj _ => true
  | .arr [] => true
  | _ => false

def decodeSet : List (String × Json) → Option (List String)
  | [] => some []
  | (k, x) :: rest =>
    if isEmptyStructJson x then (decodeSet rest).map (k :: ·) else none

/-- after `visit_map`: every field in declaration order; a missing member is `None` for
    `Option` fields and an error otherwise -/
def assemble : List (String × Ty) → List (String × Val) → Option (List (String × Val))
  | [], _ => some []
  | (f, ft) :: rest, dec =>
    match (match dec.lookup f with
           | some v => some v
           | none => if isOpt ft then some Val.none else none), assemble rest dec with
    | some v, some r => some ((f, v) :: r)
    | _, _ => none

mutual
  /-- `t` is not an `Option` here (`optWrap` strips it; `??T` is not in the grammar) -/
  def decodeCore (env : Env) (t : Ty) (j : Json) : Option Val :=
    match resolve env t, j with
    | .bool, .bool b => some (.bool b)
    | .int, .int i => if inI64 i then some (.int i) else none
    | .float, .flt b => some (.flt b)
    | .float, .int i => if inJsonInt i then some (.flt (f64OfInt i)) else none
    | .string, .str s => some (.str s)
    | .object, j => some (.json j)
    | .enum vs, .str s => if vs.contains s then some (.enum s) else none
    | .enum vs, .obj [(k, .null)] => if vs.contains k then some (.enum k) else none
    | .arr te, .arr l => (decodeList env te l).map .arr
    | .map (.struct []), .obj kvs => (decodeSet kvs).map .set
    | .map te, .obj kvs => (decodeMap env te kvs).map .map
    | .struct fs, .obj kvs => ((decodeMembers env fs kvs).bind (assemble fs)).map .record
    | .struct fs, .arr l =>
      if l.length = fs.length then (decodeSeq env fs l).map .record else none
    | _, _ => none
  def decodeList (env : Env) (te : Ty) : List Json → Option (List Val)
    | [] => some []
    | x :: xs =>
      match optWrap te x (fun t => decodeCore env t x), decodeList env te xs with
      | some v, some vs => some (v :: vs)
      | _, _ => none
  def decodeMap (env : Env) (te : Ty) : List (String × Json) → Option (List (String × Val))
    | [] => some []
    | (k, x) :: xs =>
      match optWrap te x (fun t => decodeCore env t x), decodeMap env te xs with
      | some v, some vs => some ((k, v) :: vs)
      | _, _ => none
  /-- `visit_map`: known members are decoded with their field type, unknown members ignored -/
  def decodeMembers (env : Env) (fs : List (String × Ty)) : List (String × Json) → Option (List (String × Val))
    | [] => some []
    | (k, x) :: xs =>
      match lookupTy k fs with
      | none => decodeMembers env fs xs
      | some ft =>
        match optWrap ft x (fun t => decodeCore env t x), decodeMembers env fs xs with
        | some v, some vs => some ((k, v) :: vs)
        | _, _ => none
  /-- `visit_seq`: positional, exactly as many elements as fields (checked by the caller) -/
  def decodeSeq (env : Env) : List (String × Ty) → List Json → Option (List (String × Val))
    | (f, ft) :: fs, x :: xs =>
      match optWrap ft x (fun t => decodeCore env t x), decodeSeq env fs xs with
      | some v, some vs => some ((f, v) :: vs)
      | _, _ => none
    | [], [] => some []
    | _, _ => none
end

def decode (env : Env) (t : Ty) (j : Json) : Option Val :=
  optWrap t j (fun t => decodeCore env t j)

/-- a top-level struct (`*_Args`, `*_Reply`, error args) -/
def decodeStruct (env : Env) (fs : List (String × Ty)) (j : Json) : Option Val :=
  decodeCore env (.struct fs) j

/-! ### well-typed values

`wellTyped env t v`: `v` is a value of the Rust type the generator maps `t` to, **except** the
two points at which a value cannot survive JSON: a non-finite float (serde_json writes `null`),
and `Some(Value::Null)` in an `?object` (indistinguishable from `None`). -/

def keysNodup {α} : List (String × α) → Bool
  | [] => true
  | (k, _) :: rest => !(rest.any (·.1 == k)) && keysNodup rest

def strNodup : List String → Bool
  | [] => true
  | k :: rest => !(rest.contains k) && strNodup rest

def isNullJsonVal : Val → Bool
  | .json .null => true
  | _ => false

mutual
  def wtCore (env : Env) (t : Ty) (v : Val) : Bool :=
    match resolve env t, v with
    | .bool, .bool _ => true
    | .int, .int i => inI64 i
    | .float, .flt b => finiteBits b
    | .string, .str _ => true
    | .object, .json _ => true
    | .enum vs, .enum s => vs.contains s
    | .arr te, .arr l => wtList env te l
    | .map (.struct []), .set ks => strNodup ks
    | .map (.struct []), .map _ => false
    | .map te, .map kvs => keysNodup kvs && wtMap env te kvs
    | .struct fs, .record kvs => keysNodup fs && wtFields env fs kvs
    | _, _ => false
  def wtList (env : Env) (te : Ty) : List Val → Bool
    | [] => true
    | x :: xs =>
      (match te, x with
       | .opt _, .none => true
       | .opt t', .some y => wtCore env t' y && !(isNullJsonVal y)
       | .opt _, _ => false
       | t, x => wtCore env t x) && wtList env te xs
  def wtMap (env : Env) (te : Ty) : List (String × Val) → Bool
    | [] => true
    | (_, x) :: xs =>
      (match te, x with
       | .opt _, .none => true
       | .opt t', .some y => wtCore env t' y && !(isNullJsonVal y)
       | .opt _, _ => false
       | t, x => wtCore env t x) && wtMap env te xs
  /-- same names in the same order, each member well typed -/
  def wtFields (env : Env) : List (String × Ty) → List (String × Val) → Bool
    | [], [] => true
    | (f, ft) :: fs, (k, x) :: xs =>
      f == k &&
      (match ft, x with
       | .opt _, .none => true
       | .opt t', .some y => wtCore env t' y && !(isNullJsonVal y)
       | .opt _, _ => false
       | t, x => wtCore env t x) && wtFields env fs xs
    | _, _ => false
end

/-- a value in an element / member / parameter position: `?T` is `Option<T>` -/
def wtElem (env : Env) (t : Ty) (v : Val) : Bool :=
  match t, v with
  | .opt _, .none => true
  | .opt t', .some y => wtCore env t' y && !(isNullJsonVal y)
  | .opt _, _ => false
  | t, x => wtCore env t x

def wellTyped (env : Env) (t : Ty) (v : Val) : Bool := wtElem env t v

/-! ### interface definitions, requests, dispatch, replies -/

structure Method where
  name : String
  input : List (String × Ty)
  output : List (String × Ty)
deriving Repr, Inhabited

structure ErrorDef where
  name : String
  parm : List (String × Ty)
deriving Repr, Inhabited

/-- lists in `BTreeMap` iteration order (what the generator iterates over) -/
structure IDL where
  name : String
  types : List (String × Ty)
  methods : List Method
  errors : List ErrorDef
deriving Repr, Inhabited

def IDL.env (i : IDL) : Env := i.types

inductive Mode where
  | call | more | oneway
deriving Repr, DecidableEq, Inhabited

def methodName (iface m : String) : String := iface ++ "." ++ m

/-- what the generated client stub hands to `MethodCall::send`: the method is
    `<interface>.<Method>`, `parameters` is always present (`{}` for no arguments) -/
def requestOf (iface m : String) (args : Val) (mode : Mode) : Json :=
  .obj ([("method", Json.str (methodName iface m))] ++
        (match mode with
         | .call => []
         | .more => [("more", Json.bool true)]
         | .oneway => [("oneway", Json.bool true)]) ++
        [("parameters", encodeTop args)])

def errInvalidParameter (p : String) : Json :=
  .obj [("error", .str "org.varlink.service.InvalidParameter"), ("parameters", .obj [("parameter", .str p)])]
def errMethodNotFound (m : String) : Json :=
  .obj [("error", .str "org.varlink.service.MethodNotFound"), ("parameters", .obj [("method", .str m)])]
def errMethodNotImplemented (m : String) : Json :=
  .obj [("error", .str "org.varlink.service.MethodNotImplemented"), ("parameters", .obj [("method", .str m)])]

inductive Dispatch where
  /-- `reply_invalid_parameter(p)`; `closes`: the arm then returns `Err` (connection ends) -/
  | invalidParameter (p : String) (closes : Bool)
  | methodNotFound (m : String)
  /-- the implementation is called with these argument values -/
  | invoke (m : Method) (args : Val)

def findMethod (i : IDL) (full : String) : Option Method :=
  i.methods.find? fun m => methodName i.name m.name == full

/-- the generated `match req.method.as_ref()` with its per-method arm -/
def dispatch (i : IDL) (method : String) (params : Option Json) : Dispatch :=
  match findMethod i method with
  | none => .methodNotFound method
  | some m =>
    if m.input.isEmpty then .invoke m (.record [])
    else match params with
      | none => .invalidParameter "parameters" false
      | some p =>
        match decodeStruct i.env m.input p with
        | none => .invalidParameter "*" true
        | some v => .invoke m v

/-- `Call_<M>::reply(values)` (`Reply::parameters(None)` for an empty reply struct) -/
def replyOf (m : Method) (continues : Bool) (v : Val) : Json :=
  .obj ((if continues then [("continues", Json.bool true)] else []) ++
        (if m.output.isEmpty then [] else [("parameters", encodeTop v)]))

/-- `reply_<error>(values)` -/
def errorReplyOf (iface : String) (e : ErrorDef) (continues : Bool) (v : Val) : Json :=
  .obj ((if continues then [("continues", Json.bool true)] else []) ++
        [("error", Json.str (methodName iface e.name))] ++
        (if e.parm.isEmpty then [] else [("parameters", encodeTop v)]))

inductive Outcome where
  /-- `Ok(<M>_Reply)` -/
  | ok (v : Val)
  /-- `Err(ErrorKind::<E>(args))` of the generated error enum -/
  | err (e : String) (args : Option Val)
  /-- `ErrorKind::Varlink_Error` with this source kind / `VarlinkReply_Error` -/
  | verr (kind : String)
deriving Repr, Inhabited

def jsonStr? : Option Json → Option String
  | some (.str s) => some s
  | _ => none

def nonNull : Option Json → Option Json
  | some .null => none
  | x => x

/-- `MethodCall::recv` + `From<varlink::Error> for Error` + `From<&Reply> for ErrorKind` -/
def clientOutcome (i : IDL) (m : Method) (reply : Json) : Outcome :=
  let params := nonNull (reply.get? "parameters")
  match nonNull (reply.get? "error") with
  | some (.str en) =>
    if en == "org.varlink.service.InvalidParameter" then .verr "invalid-parameter"
    else if en == "org.varlink.service.MethodNotFound" then .verr "method-not-found"
    else if en == "org.varlink.service.MethodNotImplemented" then .verr "method-not-implemented"
    else if en == "org.varlink.service.InterfaceNotFound" then .verr "interface-not-found"
    else match i.errors.find? (fun e => methodName i.name e.name == en) with
      | none => .verr "reply-error"
      | some e =>
        match params with
        | none => .err e.name none
        | some p => .err e.name (decodeStruct i.env e.parm p)
  | some _ => .verr "serde-ser"
  | none =>
    match decodeStruct i.env m.output (params.getD (.obj [])) with
    | some v => .ok v
    | none => .verr "serde-ser"

end Gen
end VV

namespace VV
namespace Gen

/-! ### one full loop: generated client ↔ generated proxy + an implementation that follows a script -/

inductive Action where
  /-- `call.set_continues(c); call.reply(values)` -/
  | reply (continues : Bool) (v : Val)
  /-- `call.set_continues(false); call.reply_<error>(values)` -/
  | error (e : String) (v : Val)
deriving Repr, Inhabited

inductive ClientObs where
  | ok (eq : Bool) (j : Json)
  | err (e : String) (eq : Bool)
  | verr (kind : String)
  | okOneway
deriving Repr, Inhabited

structure CallObs where
  req : List Json
  /-- per invocation of the implementation: were the arguments equal to the ones the client passed? -/
  seen : List Bool
  wire : List Json
  client : List ClientObs
  srvOk : Bool
deriving Repr, Inhabited

def actionReply (i : IDL) (m : Method) : Action → Json
  | .reply c v => replyOf m c v
  | .error en v =>
    match i.errors.find? (·.name == en) with
    | some e => errorReplyOf i.name e false v
    | none => .null

/-- what the client makes of one reply, compared with what the implementation passed -/
def clientObsOf (i : IDL) (m : Method) (a : Action) : ClientObs :=
  match clientOutcome i m (actionReply i m a) with
  | .ok v =>
    .ok (match a with
         | .reply _ sent => v == sent
         | _ => false) (encodeTop v)
  | .err en args =>
    .err en (match a with
             | .error en' sent =>
               en == en' &&
               (match i.errors.find? (·.name == en') with
                | some e => if e.parm.isEmpty then args.isNone else args == some sent
                | none => false)
             | _ => false)
  | .verr k => .verr k

def predictCall (i : IDL) (m : Method) (mode : Mode) (args : Val) (script : List Action) : CallObs :=
  let req := requestOf i.name m.name args mode
  match dispatch i (methodName i.name m.name) (nonNull (req.get? "parameters")) with
  | .invoke _ seenArgs =>
    let replies := script.map (actionReply i m)
    match mode with
    | .oneway => { req := [req], seen := [seenArgs == args], wire := [], client := [.okOneway], srvOk := true }
    | _ => { req := [req], seen := [seenArgs == args], wire := replies, client := script.map (clientObsOf i m), srvOk := true }
  | .invalidParameter p closes =>
    match mode with
    | .oneway => { req := [req], seen := [], wire := [], client := [.okOneway], srvOk := !closes }
    | _ => { req := [req], seen := [], wire := [errInvalidParameter p], client := [.verr "invalid-parameter"], srvOk := !closes }
  | .methodNotFound mm =>
    match mode with
    | .oneway => { req := [req], seen := [], wire := [], client := [.okOneway], srvOk := true }
    | _ => { req := [req], seen := [], wire := [errMethodNotFound mm], client := [.verr "method-not-found"], srvOk := true }

end Gen
end VV
