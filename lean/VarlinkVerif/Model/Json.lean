/-
Model.Json — the JSON value tree shared by every model.

Import-free (core only) so that the `vmodel` driver links as a `lean_exe`.

Numbers: serde_json (as built in /repo: no `arbitrary_precision`, no
`preserve_order`) distinguishes integers that fit i64/u64 from f64.  The model
keeps integers as `Int` and floats by their IEEE-754 bit pattern (`Nat`), which
is opaque to every theorem: no model function computes with a float.
Objects are association lists; the line protocol delivers them with keys sorted
and distinct (serde_json's `BTreeMap`), and `Json.get?` is "first match".
-/
namespace VV

inductive Json where
  | null
  | bool (b : Bool)
  | int (i : Int)
  | flt (bits : Nat)
  | str (s : String)
  | arr (l : List Json)
  | obj (l : List (String × Json))
deriving Repr, Inhabited

namespace Json

mutual
  def beq : Json → Json → Bool
    | .null, .null => true
    | .bool a, .bool b => a == b
    | .int a, .int b => a == b
    | .flt a, .flt b => a == b
    | .str a, .str b => a == b
    | .arr a, .arr b => beqList a b
    | .obj a, .obj b => beqObj a b
    | _, _ => false
  def beqList : List Json → List Json → Bool
    | [], [] => true
    | x :: xs, y :: ys => beq x y && beqList xs ys
    | _, _ => false
  def beqObj : List (String × Json) → List (String × Json) → Bool
    | [], [] => true
    | (k, x) :: xs, (l, y) :: ys => k == l && beq x y && beqObj xs ys
    | _, _ => false
end

instance : BEq Json := ⟨beq⟩

mutual
  theorem beq_refl : ∀ j : Json, beq j j = true
    | .null => rfl
    | .bool b => by simp [beq]
    | .int i => by simp [beq]
    | .flt f => by simp [beq]
    | .str s => by simp [beq]
    | .arr l => by simp [beq, beqList_refl l]
    | .obj l => by simp [beq, beqObj_refl l]
  theorem beqList_refl : ∀ l : List Json, beqList l l = true
    | [] => rfl
    | x :: xs => by simp [beqList, beq_refl x, beqList_refl xs]
  theorem beqObj_refl : ∀ l : List (String × Json), beqObj l l = true
    | [] => rfl
    | (k, x) :: xs => by simp [beqObj, beq_refl x, beqObj_refl xs]
end

mutual
  theorem eq_of_beq : ∀ a b : Json, beq a b = true → a = b
    | .null, b => by cases b <;> simp [beq]
    | .bool x, b => by cases b <;> simp [beq]
    | .int x, b => by cases b <;> simp [beq]
    | .flt x, b => by cases b <;> simp [beq]
    | .str x, b => by cases b <;> simp [beq]
    | .arr x, b => by
        cases b <;> simp [beq]
        exact eq_of_beqList x _
    | .obj x, b => by
        cases b <;> simp [beq]
        exact eq_of_beqObj x _
  theorem eq_of_beqList : ∀ a b : List Json, beqList a b = true → a = b
    | [], b => by cases b <;> simp [beqList]
    | x :: xs, b => by
        cases b with
        | nil => simp [beqList]
        | cons y ys =>
          simp [beqList]
          intro h1 h2
          exact ⟨eq_of_beq x y h1, eq_of_beqList xs ys h2⟩
  theorem eq_of_beqObj : ∀ a b : List (String × Json), beqObj a b = true → a = b
    | [], b => by cases b <;> simp [beqObj]
    | (k, x) :: xs, b => by
        cases b with
        | nil => simp [beqObj]
        | cons y ys =>
          obtain ⟨l, y⟩ := y
          simp [beqObj]
          intro h0 h1 h2
          exact ⟨⟨h0, eq_of_beq x y h1⟩, eq_of_beqObj xs ys h2⟩
end

instance : DecidableEq Json := fun a b =>
  if h : beq a b = true then isTrue (eq_of_beq a b h)
  else isFalse (fun e => h (e ▸ beq_refl a))

/-- first-match lookup in an association list -/
def lookup (k : String) : List (String × Json) → Option Json
  | [] => none
  | (k', v) :: rest => if k' = k then some v else lookup k rest

/-- member access on an object; `none` for non-objects and missing members -/
def get? (j : Json) (k : String) : Option Json :=
  match j with
  | .obj l => lookup k l
  | _ => none

def isNull : Json → Bool
  | .null => true
  | _ => false

def emptyObj : Json := .obj []

end Json
end VV
