/-
Model.Listen — the accept loop of `varlink::listen` (server.rs) as an automaton
over the outcomes of its blocking points.

One iteration of the outer loop: read the stop flag (if configured); then the
inner loop calls `accept(wait_time)`, which either yields a connection or times
out after `wait_time` ms; on a timeout the loop reads the stop flag and, when
the countdown has run down, the pool's busy counter.  The values read at those
moments are inputs (`AcceptOutcome`); the arithmetic and the constants are not written
here, they come from `Model.Extracted` (regenerated from server.rs every run).

`wait_time = 0` (no stop flag, no idle timeout) means `accept` blocks without
`select`: it never times out.
-/
import VarlinkVerif.Model.Extracted

namespace VV

structure ListenCfg where
  idle : Nat          -- `idle_timeout` in seconds
  hasStop : Bool      -- `stop_listening.is_some()`
deriving Repr, DecidableEq

inductive AcceptOutcome where
  /-- `accept` returned a connection; `stopAtTop` is the flag as read at the top
      of the next outer iteration -/
  | conn (stopAtTop : Bool)
  /-- `accept` timed out after `wait_time` ms; the flag and the busy counter as
      read by the timeout branch -/
  | timeout (stop : Bool) (busy : Nat)
deriving Repr, DecidableEq

inductive LResult where
  | running
  | okStopped        -- `return Ok(())`
  | errTimeout       -- `return Err(Timeout)`
deriving Repr, DecidableEq

structure ListenSt where
  toWait : Nat
  result : LResult := .running
  accepted : Nat := 0
  /-- ghost: ms spent in timeouts since the last accepted connection -/
  quietMs : Nat := 0
  /-- ghost: ms spent in timeouts since the countdown was last (re)started -/
  sinceReset : Nat := 0
  /-- ghost: the busy value read by the last idle check -/
  lastBusy : Option Nat := none
  /-- ghost: some flag read returned `true` -/
  sawStop : Bool := false
deriving Repr, DecidableEq

def fullWait (c : ListenCfg) : Nat := c.idle * Extracted.msPerSec

def waitTime (c : ListenCfg) : Nat := if c.hasStop then Extracted.stopSlice else fullWait c

/-- state at the first `accept` (flag `stop0` read at the top of the first iteration) -/
def Listen.init (c : ListenCfg) (stop0 : Bool) : ListenSt :=
  if c.hasStop && stop0 then { toWait := fullWait c, result := .okStopped, sawStop := true }
  else { toWait := fullWait c }

def Listen.step (c : ListenCfg) (s : ListenSt) (o : AcceptOutcome) : ListenSt :=
  if s.result != .running then s else
  match o with
  | .conn stopAtTop =>
    -- pool.execute(job); next outer iteration
    let s' := { s with accepted := s.accepted + 1, toWait := fullWait c, quietMs := 0, sinceReset := 0 }
    if c.hasStop && stopAtTop then { s' with result := .okStopped, sawStop := true } else s'
  | .timeout stop busy =>
    if waitTime c = 0 then s else   -- accept(0) never times out
    let s1 := { s with quietMs := s.quietMs + waitTime c, sinceReset := s.sinceReset + waitTime c }
    if c.hasStop && stop then { s1 with result := .okStopped, sawStop := true }
    else if c.hasStop && c.idle = 0 then s1
    else if Extracted.countdownDone s.toWait (waitTime c) then
      if Extracted.idleNow busy then { s1 with result := .errTimeout, lastBusy := some busy }
      else { s1 with toWait := fullWait c, sinceReset := 0, lastBusy := some busy }
    else { s1 with toWait := s.toWait - waitTime c }

def Listen.run (c : ListenCfg) (stop0 : Bool) (os : List AcceptOutcome) : ListenSt :=
  os.foldl (Listen.step c) (Listen.init c stop0)

/-- what `Listener::drop` does with the address it was created for -/
inductive ListenerKind where
  | unixPath (created : Bool)   -- `created = false`: adopted through socket activation
  | unixAbstract
  | tcp
deriving Repr, DecidableEq

/-- does dropping the listener unlink a filesystem path? (`Listener::UNIX(Some(_), false)` with a pathname) -/
def unlinksOnDrop : ListenerKind → Bool
  | .unixPath created => created
  | _ => false

end VV
