/-
C17 — wire data types survive a JSON round trip in both directions.

Quantifiers: every value of the Rust types (every flag combination, every method
string, every `parameters` value that a `serde_json::Value` can hold, every
string set / map with strictly ascending = canonical key lists, any length, any
keys), all entry points.  The *text layer* of serde_json (printing a tree,
parsing bytes into a tree) is a parameter of the statements, not verified: the
text entry points are covered under the hypothesis that the layer returns the
tree it printed (`TextLayer.ExactOn`), and the correspondence run measures where
the real serde_json does not (`tblLayer`).
-/
import VarlinkVerif.Lemmas.Serde
import VarlinkVerif.Lemmas.JsonText

namespace VV

/-! ### every type shape, all entry points -/

/-- **C17 round trip, generic**: for every type shape `t` built from the shapes
    that occur in /repo, and every value `v` of it that does not contain a
    `Some(x)` whose `x` is written as `null` nor a non-finite float (`clean`):
    `from_*(to_*(v)) = v` on the written tree (`from_str ∘ to_string`,
    `from_slice ∘ to_vec` up to the text layer) and on its `Value`
    (`from_value ∘ to_value`, `from_value ∘ from_str::<Value> ∘ to_string`). -/
theorem C17_roundtrip_shapes (cvt : Int → Nat) (t : Ty) (v : TVal)
    (hw : t.wf = true) (ht : hasTy t v = true) (hc : clean t v = true) :
    decode cvt t (encode t v) = some v ∧ fromValue cvt t (toValue t v) = some v :=
  roundtrip cvt t v hw ht hc

/-- text entry points, for every text layer that gives the written tree back -/
theorem C17_roundtrip_text {Text : Type} (cvt : Int → Nat) (L : TextLayer Text) (t : Ty) (v : TVal)
    (hw : t.wf = true) (ht : hasTy t v = true) (hc : clean t v = true)
    (hL : L.ExactOn (encode t v)) :
    fromText cvt L t (toText L t v) = some v ∧ fromTextViaValue cvt L t (toText L t v) = some v := by
  have h := roundtrip cvt t v hw ht hc
  unfold fromText fromTextViaValue toText
  unfold TextLayer.ExactOn at hL
  rw [hL]
  exact ⟨h.1, h.2⟩

/-- the idealised layer is exact everywhere: the hypothesis of `C17_roundtrip_text`
    is satisfiable -/
example (j : Json) : idLayer.ExactOn j := rfl

/-- **the exactness hypothesis is needed, and it is about /repo's build of
    serde_json**: until 5ce4651 serde_json was built without feature
    `float_roundtrip`, and the f64 with bits 7899756452052965111 printed as
    `1.2406462642583673e+220` and parsed back as bits …110 (measured on the real
    code).  With such a layer the round trip of a `Request` through text fails.
    The correspondence run measures the real layer on every float of every case
    (`fl` table); since the fix the table is empty. -/
theorem C17_roundtrip_text_needs_exact_layer :
    let L := tblLayer [(7899756452052965111, 7899756452052965110)]
    let r : Request := { method := "a.B", parameters := some (.obj [("x", .flt 7899756452052965111)]) }
    fromText (fun _ => 0) L tyRequest (toText L tyRequest r.toT) ≠ some r.toT := by
  decide

/-! ### Request -/

/-- **C17 round trip, `Request`** — every flag combination, every method string,
    every `parameters` that is absent or a `Value` other than `null`; written
    tree and `Value` entry points.  `hN` is the representation invariant of
    `serde_json::Value` (objects are sorted maps). -/
theorem C17_roundtrip_request_partial (cvt : Int → Nat) (r : Request)
    (hN : ∀ p, r.parameters = some p → p.isNormal = true) (hnull : r.parameters ≠ some .null) :
    decodeRequest cvt (encodeRequest r) = some r ∧
    (fromValue cvt tyRequest (toValue tyRequest r.toT)).bind Request.ofT = some r := by
  have h := roundtrip cvt tyRequest r.toT (by decide) (request_hasTy r hN) (request_clean r hnull)
  unfold decodeRequest encodeRequest fromValue toValue
  rw [h.1, h.2]
  simp [request_ofT_toT]

/-- the hypotheses of `C17_roundtrip_request_partial` are met by a non-trivial request -/
example : let r : Request := { more := some true, method := "org.example.M",
                               parameters := some (.obj [("a", .int 1), ("b", .arr [.null])]) }
    (∀ p, r.parameters = some p → p.isNormal = true) ∧ r.parameters ≠ some .null := by
  decide

/-- **`Some(Value::Null)` does not survive**: `Request { parameters: Some(Value::Null), .. }`
    is written as `"parameters":null` and read back as `parameters: None`
    (reproduced on the real code through all three entry points). -/
theorem C17_roundtrip_request_counterexample :
    let r : Request := { method := "a.B", parameters := some .null }
    decodeRequest (fun _ => 0) (encodeRequest r) = some { r with parameters := none } ∧
    decodeRequest (fun _ => 0) (encodeRequest r) ≠ some r := by
  decide

/-! ### Reply -/

/-- **C17 round trip, `Reply`** (same gap as `Request`) -/
theorem C17_roundtrip_reply_partial (cvt : Int → Nat) (r : Reply)
    (hN : ∀ p, r.parameters = some p → p.isNormal = true) (hnull : r.parameters ≠ some .null) :
    decodeReply cvt (encodeReply r) = some r ∧
    (fromValue cvt tyReply (toValue tyReply r.toT)).bind Reply.ofT = some r := by
  have h := roundtrip cvt tyReply r.toT (by decide) (reply_hasTy r hN) (reply_clean r hnull)
  unfold decodeReply encodeReply fromValue toValue
  rw [h.1, h.2]
  simp [reply_ofT_toT]

example : let r : Reply := { continues := some true, error := some "org.example.E",
                             parameters := some (.obj [("a", .flt 4607182418800017408)]) }
    (∀ p, r.parameters = some p → p.isNormal = true) ∧ r.parameters ≠ some .null := by
  decide

theorem C17_roundtrip_reply_counterexample :
    let r : Reply := { parameters := some .null }
    decodeReply (fun _ => 0) (encodeReply r) = some { r with parameters := none } ∧
    decodeReply (fun _ => 0) (encodeReply r) ≠ some r := by
  decide

/-! ### ServiceInfo, GetInterfaceDescriptionReply: no gap -/

/-- **C17 round trip, `ServiceInfo`**: every value -/
theorem C17_roundtrip_service_info (cvt : Int → Nat) (s : ServiceInfo) :
    decodeServiceInfo cvt (encodeServiceInfo s) = some s ∧
    (fromValue cvt tyServiceInfo (toValue tyServiceInfo s.toT)).bind ServiceInfo.ofT = some s := by
  have ht : hasTy tyServiceInfo s.toT = true := by
    simp [tyServiceInfo, ServiceInfo.toT, hasTy, hasTyFields]
  have hc : clean tyServiceInfo s.toT = true := by
    simp [tyServiceInfo, ServiceInfo.toT, clean, cleanFields]
  have h := roundtrip cvt tyServiceInfo s.toT (by decide) ht hc
  unfold decodeServiceInfo encodeServiceInfo fromValue toValue
  rw [h.1, h.2]
  simp [ServiceInfo.toT, ServiceInfo.ofT, mapOpt_strOf]

/-- **C17 round trip, `GetInterfaceDescriptionReply`**: every value -/
theorem C17_roundtrip_desc_reply (cvt : Int → Nat) (d : DescReply) :
    decodeDescReply cvt (encodeDescReply d) = some d ∧
    (fromValue cvt tyDescReply (toValue tyDescReply d.toT)).bind DescReply.ofT = some d := by
  obtain ⟨o⟩ := d
  have ht : hasTy tyDescReply (DescReply.toT ⟨o⟩) = true := by
    cases o <;> simp [tyDescReply, DescReply.toT, optT, hasTy, hasTyFields]
  have hc : clean tyDescReply (DescReply.toT ⟨o⟩) = true := by
    cases o <;> simp [tyDescReply, DescReply.toT, optT, clean, cleanFields, encode, Json.isNull]
  have h := roundtrip cvt tyDescReply (DescReply.toT ⟨o⟩) (by decide) ht hc
  unfold decodeDescReply encodeDescReply fromValue toValue
  rw [h.1, h.2]
  cases o <;> simp [DescReply.toT, DescReply.ofT, optT, optStrOf]

/-! ### string sets and string maps -/

/-- **C17 round trip, `StringHashSet`**: every set (canonical = strictly ascending
    element list, any strings).  There is no bound on the number of members: `l` is an
    arbitrary list and the proof is by induction on it (`decSetEntries_sorted`,
    `normObj_sorted`); the visitor of the model walks the whole map whatever its
    size (`C17_set_visitor_both_impls`), on the text and on the `Value` entry point
    alike.  1025 or 10000 members are instances. -/
theorem C17_roundtrip_set (cvt : Int → Nat) (l : List String) (hs : strictSorted l = true) :
    decode cvt .set (encode .set (.set l)) = some (.set l) ∧
    fromValue cvt .set (toValue .set (.set l)) = some (.set l) :=
  roundtrip cvt .set (.set l) rfl (by simpa [hasTy] using hs) rfl

/-- **C17 round trip, `StringHashMap<T>`**, for every element type shape `T` and
    every map whose members are values of `T` that round-trip themselves: in
    particular `T` = `String`, `i64`, `StringHashSet`, `Value`, and nested maps. -/
theorem C17_roundtrip_map (cvt : Int → Nat) (t : Ty) (l : List (String × TVal))
    (hw : t.wf = true) (hs : strictSorted (l.map (·.1)) = true)
    (hv : ∀ e ∈ l, hasTy t e.2 = true ∧ clean t e.2 = true) :
    decode cvt (.map t) (encode (.map t) (.map l)) = some (.map l) ∧
    fromValue cvt (.map t) (toValue (.map t) (.map l)) = some (.map l) := by
  refine roundtrip cvt (.map t) (.map l) (by simpa [Ty.wf] using hw) ?_ ?_
  · simp only [hasTy, Bool.and_eq_true]
    exact ⟨hs, by simpa using fun a b hab => (hv (a, b) hab).1⟩
  · simp only [clean]
    simpa using fun a b hab => (hv (a, b) hab).2

/-- `StringHashMap<String>`: every map -/
theorem C17_roundtrip_map_string (cvt : Int → Nat) (l : List (String × String))
    (hs : strictSorted (l.map (·.1)) = true) :
    let v := TVal.map (l.map fun e => (e.1, TVal.str e.2))
    decode cvt (.map .str) (encode (.map .str) v) = some v := by
  intro v
  refine (C17_roundtrip_map cvt .str _ rfl (by simpa [Function.comp_def] using hs) ?_).1
  intro e he
  simp at he
  obtain ⟨a, b, _, rfl⟩ := he
  simp [hasTy, clean]

/-- nested: `StringHashMap<StringHashMap<String>>` and `StringHashMap<StringHashSet>` instances exist -/
example : let v := TVal.map [("a", .map [("x", .str "1"), ("y", .str "")]), ("é", .map [])]
    decode (fun _ => 0) (.map (.map .str)) (encode (.map (.map .str)) v) = some v := by decide

example : let v := TVal.map [("\"", .set ["", "a", "b"]), ("k", .set [])]
    fromValue (fun _ => 0) (.map .set) (toValue (.map .set) v) = some v := by decide

/-! ### unset optional members are omitted -/

/-- **C17 omits unset, generic**: in the object written for a struct, a member
    marked `skip_serializing_if = "Option::is_none"` is absent when it is `None`;
    every other member is present exactly once, with its own encoding. -/
theorem C17_omits_unset (fs : Fields) (vs : List TVal) (hd : distinct (fieldNames fs) = true) :
    OccEnc id (encodeFields fs vs) fs vs :=
  occEnc_encodeFields fs vs hd

/-- for `Request`: each of `more`, `oneway`, `upgrade`, `parameters` is in the
    output exactly when it is set; `method` always is -/
theorem C17_omits_unset_request (r : Request) :
    ((encodeRequest r).get? "more" = none ↔ r.more = none) ∧
    ((encodeRequest r).get? "oneway" = none ↔ r.oneway = none) ∧
    ((encodeRequest r).get? "upgrade" = none ↔ r.upgrade = none) ∧
    ((encodeRequest r).get? "parameters" = none ↔ r.parameters = none) ∧
    (encodeRequest r).get? "method" = some (.str r.method) := by
  obtain ⟨m, o, u, meth, p⟩ := r
  cases m <;> cases o <;> cases u <;> cases p <;>
    simp [encodeRequest, tyRequest, Request.toT, optT, encode, encodeFields, TVal.isNone, Json.get?, Json.lookup]

theorem C17_omits_unset_reply (r : Reply) :
    ((encodeReply r).get? "continues" = none ↔ r.continues = none) ∧
    ((encodeReply r).get? "error" = none ↔ r.error = none) ∧
    ((encodeReply r).get? "parameters" = none ↔ r.parameters = none) := by
  obtain ⟨c, e, p⟩ := r
  cases c <;> cases e <;> cases p <;>
    simp [encodeReply, tyReply, Reply.toT, optT, encode, encodeFields, TVal.isNone, Json.get?, Json.lookup]

theorem C17_omits_unset_desc_reply (d : DescReply) :
    ((encodeDescReply d).get? "description" = none ↔ d.description = none) := by
  obtain ⟨o⟩ := d
  cases o <;>
    simp [encodeDescReply, tyDescReply, DescReply.toT, optT, encode, encodeFields, TVal.isNone, Json.get?, Json.lookup]

/-! ### the shape of a string set -/

/-- **C17 set shape**: a set is written as the object mapping each element to `{}`,
    nothing else; and for a canonical set that object is already its `Value`. -/
theorem C17_set_shape (l : List String) :
    encode .set (.set l) = .obj (l.map fun k => (k, .obj [])) := rfl

theorem C17_set_shape_value (l : List String) (hs : strictSorted l = true) :
    toValue .set (.set l) = .obj (l.map fun k => (k, .obj [])) := by
  have hsk : strictSorted ((l.map fun k => (k, Json.obj [])).map (·.1)) = true := by
    simpa [Function.comp_def] using hs
  simp only [toValue, encode, Json.norm, normObj_sorted _ hsk, List.map_map]
  congr 1

/-- and every member value other than an object (or `[]`) is rejected when read:
    `{"a":5}` is not a set -/
example : decode (fun _ => 0) .set (.obj [("a", .int 5)]) = none ∧
    decode (fun _ => 0) .set (.obj [("a", .obj [("x", .int 1)]), ("b", .arr [])]) = some (.set ["a", "b"]) := by
  decide

/-! ### every valid request / reply object comes back as an equivalent object -/

def requestKnown : List String := ["more", "oneway", "upgrade", "method", "parameters"]
def replyKnown : List String := ["continues", "error", "parameters"]

/-- **C17 object equivalence, generic** (`object_equiv_struct`): for a struct whose
    members are scalars, `Value`s and `Option`s of those — every JSON object `l`
    (members in any order, unknown members, duplicates of unknown members, nested
    duplicates inside `Value` members: anything the deserializer accepts) that
    decodes to `vs` is, restricted to the struct's members, equivalent to the
    encoding of `vs`: equal as `Value`s after dropping `Option` members that are
    `null`. -/
theorem C17_object_equiv (cvt : Int → Nat) (fs : Fields) (hd : distinct (fieldNames fs) = true)
    (hcanon : ∀ f ∈ fs, f.2.2.canon = true) (hskip : ∀ f ∈ fs, f.2.1 = true → f.2.2.isOpt = true)
    (l : List (String × Json)) (vs : List TVal) (h : decodeFieldsObj cvt fs l = some vs) :
    objEquiv (optNames fs) (encode (.struct fs) (.struct vs)) (restrictTo (fieldNames fs) (.obj l)) :=
  object_equiv_struct cvt fs hd hcanon hskip l vs h

/-- **C17 object equivalence, `Request`**: every JSON object that deserializes as
    a request (through the text entry points; through `from_value` take `l` to be
    the object's `Value`) deserializes to a value that serializes back to an
    equivalent object: equal as JSON values after dropping `more` / `oneway` /
    `upgrade` / `parameters` members that are `null`.  Members the protocol does
    not know are ignored by the deserializer and therefore compared away
    (`restrictTo`); for an object with the five protocol members only, the
    restriction is the identity (`C17_object_equiv_request_known`). -/
theorem C17_object_equiv_request (cvt : Int → Nat) (l : List (String × Json)) (r : Request)
    (h : decodeRequest cvt (.obj l) = some r) :
    objEquiv requestOptional (encodeRequest r) (restrictTo requestKnown (.obj l)) := by
  unfold decodeRequest at h
  simp only [tyRequest, decode] at h
  cases hf : decodeFieldsObj cvt
      [("more", true, .opt .bool), ("oneway", true, .opt .bool), ("upgrade", true, .opt .bool),
       ("method", false, .str), ("parameters", true, .opt .value)] l with
  | none => simp [hf] at h
  | some vs =>
    simp only [hf, Option.map_some, Option.bind_some] at h
    have ht := request_toT_of_ofT h
    have := object_equiv_struct cvt _ (by decide) (by decide) (by decide) l vs hf
    unfold encodeRequest
    rw [ht]
    exact this

theorem C17_object_equiv_request_known (cvt : Int → Nat) (l : List (String × Json)) (r : Request)
    (hk : ∀ e ∈ l, e.1 ∈ requestKnown) (h : decodeRequest cvt (.obj l) = some r) :
    objEquiv requestOptional (encodeRequest r) (.obj l) := by
  have := C17_object_equiv_request cvt l r h
  rwa [restrictTo_of_known requestKnown l hk] at this

/-- **C17 object equivalence, `Reply`** -/
theorem C17_object_equiv_reply (cvt : Int → Nat) (l : List (String × Json)) (r : Reply)
    (h : decodeReply cvt (.obj l) = some r) :
    objEquiv replyOptional (encodeReply r) (restrictTo replyKnown (.obj l)) := by
  unfold decodeReply at h
  simp only [tyReply, decode] at h
  cases hf : decodeFieldsObj cvt
      [("continues", true, .opt .bool), ("error", true, .opt .str), ("parameters", true, .opt .value)] l with
  | none => simp [hf] at h
  | some vs =>
    simp only [hf, Option.map_some, Option.bind_some] at h
    have ht := reply_toT_of_ofT h
    have := object_equiv_struct cvt _ (by decide) (by decide) (by decide) l vs hf
    unfold encodeReply
    rw [ht]
    exact this

theorem C17_object_equiv_reply_known (cvt : Int → Nat) (l : List (String × Json)) (r : Reply)
    (hk : ∀ e ∈ l, e.1 ∈ replyKnown) (h : decodeReply cvt (.obj l) = some r) :
    objEquiv replyOptional (encodeReply r) (.obj l) := by
  have := C17_object_equiv_reply cvt l r h
  rwa [restrictTo_of_known replyKnown l hk] at this

/-- the hypothesis is met by a non-trivial object: members out of order, a null
    optional, an unknown member, a duplicate inside `parameters` -/
example :
    let l : List (String × Json) :=
      [("parameters", .obj [("b", .int 1), ("a", .null), ("b", .int 2)]), ("x", .int 7), ("more", .null),
       ("method", .str "org.example.M"), ("oneway", .bool true)]
    decodeRequest (fun _ => 0) (.obj l) =
      some { oneway := some true, method := "org.example.M",
             parameters := some (.obj [("a", .null), ("b", .int 2)]) } := by
  decide

/-! ### the `MapAccess` walk of the `StringHashSet` visitor -/

/-- **the visitor consumes key and value of every entry, on both `MapAccess`
    implementations of serde_json**, and yields exactly what `decode .set` says:
    the streaming (text) and the value-map walk agree, whatever the member values
    are. -/
theorem C17_set_visitor_both_impls (impl : MapImpl) (l : List (String × Json)) :
    setVisitorEntries impl (l.length + 1) { rest := l, pending := none } [] = decSetEntries l := by
  rw [setVisitorEntries_eq impl l (l.length + 1) [] (Nat.lt_succ_self _), decSetEntries_eq,
    foldl_eq_foldr_setAdd]

/-- **the visitor before b3d9722** (`next_key` only): on the streaming
    `MapAccess` it fails for EVERY non-empty object — whatever the fuel — because
    the second `next_key` meets the pending value; -/
theorem C17_set_old_visitor_streaming_fails (k : String) (v : Json) (rest : List (String × Json))
    (fuel : Nat) (acc : List String) :
    setVisitorKeysOnly .streaming fuel { rest := (k, v) :: rest, pending := none } acc = none := by
  cases fuel with
  | zero => rfl
  | succ f =>
    cases f with
    | zero => simp [setVisitorKeysOnly, MapAcc.nextKey]
    | succ g => simp [setVisitorKeysOnly, MapAcc.nextKey]

/-- … and on the value map it accepted members of any type (`{"a":5}` was a set) -/
theorem C17_set_old_visitor_value_accepts_anything :
    setVisitorKeysOnly .valueMap 3 { rest := [("a", .int 5), ("b", .null)], pending := none } [] =
      some ["a", "b"] ∧
    decode (fun _ => 0) .set (.obj [("a", .int 5), ("b", .null)]) = none := by
  decide

/-! ### the text layer, concretely (Model/JsonText.lean, tied by suite `jsontext`) -/

open JsonText in
/-- **print then parse, every `Value`** (`serde_json::from_str::<Value> ∘ to_string`):
    for EVERY tree `j` (mutual structural induction over `Json`; no bound on size,
    width or string length) that is `Printable` — nesting within serde_json's
    recursion limit (`fits 128`: at most 127 containers deep — the explicit depth
    hypothesis), integers within [-2^63, 2^64), every object strictly sorted (a
    `Value`) — and whose floats are faithful in the float layer (`F.fprint b` is a
    number token of float syntax or out of integer range, and `F.fparse` gives `b`
    back), the parser returns exactly `j`. -/
theorem C17_text_parse_print (F : FloatLayer) (j : Json) (hF : F.Faithful j) (hj : Printable j) :
    parse F (print F j) = some j :=
  parseD_print F depthLimit j hj.1 hj.2 hF

open JsonText in
/-- the same for the raw tree the streaming deserializer walks through (members in
    any order, e.g. struct members in declaration order): no sortedness needed -/
theorem C17_text_parse_print_raw (F : FloatLayer) (j : Json) (hF : F.Faithful j) (hj : RawPrintable j) :
    parseRaw F (print F j) = some j :=
  parseRawD_print F depthLimit j hj hF

open JsonText in
/-- **the `ExactOn` hypothesis of `C17_roundtrip_text` is discharged** for the concrete
    layer `jsonLayer F` (printer and parser of Model/JsonText.lean) on every tree within
    the recursion limit whose integers are i64/u64 and whose floats are faithful. -/
theorem C17_text_layer_exact (F : FloatLayer) (j : Json) (hF : F.Faithful j) (hj : RawPrintable j) :
    (jsonLayer F).ExactOn j :=
  C17_text_parse_print_raw F j hF hj

open JsonText in
/-- `C17_roundtrip_text` instantiated with the concrete text layer: `from_str(to_string(v)) = v`
    and `from_value(from_str::<Value>(to_string(v))) = v` on `List Char` texts.  The two extra
    hypotheses say that the written tree `encode t v` is within the parser's limits
    (`RawPrintable`: nesting < 128, integers i64/u64) and that its floats are faithful;
    they are left explicit (they hold for every `Request`/`Reply` whose `parameters` satisfy them:
    the envelope adds one level of nesting). -/
theorem C17_roundtrip_chars (cvt : Int → Nat) (F : FloatLayer) (t : Ty) (v : TVal)
    (hw : t.wf = true) (ht : hasTy t v = true) (hc : clean t v = true)
    (hp : RawPrintable (encode t v)) (hF : F.Faithful (encode t v)) :
    fromText cvt (jsonLayer F) t (toText (jsonLayer F) t v) = some v ∧
      fromTextViaValue cvt (jsonLayer F) t (toText (jsonLayer F) t v) = some v :=
  C17_roundtrip_text cvt (jsonLayer F) t v hw ht hc (C17_text_layer_exact F _ hF hp)

open JsonText in
/-- **a serialized message never contains the NUL frame delimiter nor any raw control
    character** (C02's framing relies on this): for every tree, provided the float texts
    contain none (they are made of `[-+0-9.eE]`). -/
theorem C17_print_no_nul (F : FloatLayer) (j : Json) (hF : ∀ b, ∀ c ∈ F.fprint b, 32 ≤ c.toNat) :
    ∀ c ∈ print F j, c.toNat ≥ 32 :=
  print_ge F hF j

namespace JsonText
/-- a float layer for examples: the one float 1.5 -/
def exLayer : FloatLayer :=
  { fprint := fun _ => ['1', '.', '5'], fparse := fun t => if t = ['1', '.', '5'] then some 4609434218613702656 else none }

/-- `n` nested arrays -/
def nestArr : Nat → Json
  | 0 => .null
  | n + 1 => .arr [nestArr n]
end JsonText

set_option maxRecDepth 8192 in
open JsonText in
/-- **the depth hypothesis matters**: nested arrays print at any depth (the printer has
    no limit) but the text parses back only within the recursion limit — shown by
    evaluation for limit 3 (`parseD … 3`: two levels are accepted, three are not), and
    for the real limit: 127 nested arrays are `Printable`, 128 are not.  The real
    serde_json agrees on the 127 / 128 witnesses (corpus of suite `jsontext`:
    `to_string` writes both, `from_str` rejects the second). -/
theorem C17_text_depth_counterexample :
    parse exLayer (print exLayer (.arr [.arr [.arr []]])) = some (.arr [.arr [.arr []]]) ∧
    parseD exLayer 4 (print exLayer (.arr [.arr [.arr []]])) = some (.arr [.arr [.arr []]]) ∧
    parseD exLayer 3 (print exLayer (.arr [.arr [.arr []]])) = none ∧
    ¬ Printable (nestArr 128) ∧ Printable (nestArr 127) := by
  decide

open JsonText in
/-- non-vacuity: a nested value with escapes, a negative int, a u64 above i64::MAX and a
    float is Printable and faithful … -/
example :
    let j : Json := .obj [("a", .arr [.int (-5), .int 18446744073709551615, .str "\"\n\\\x01é\x7f", .flt 4609434218613702656]),
                          ("b", .obj [("", .arr []), ("k", .bool true)])]
    Printable j ∧ exLayer.Faithful j := by
  decide

open JsonText in
/-- … round-trips by evaluation (as `C17_text_parse_print` says) … -/
example :
    let j : Json := .obj [("a", .arr [.int (-5), .int 18446744073709551615, .str "\"\n\\\x01é\x7f", .flt 4609434218613702656]),
                          ("b", .obj [("", .arr []), ("k", .bool true)])]
    parse exLayer (print exLayer j) = some j := by
  decide

open JsonText in
/-- … and its text holds no control character -/
example :
    let j : Json := .obj [("a", .arr [.int (-5), .int 18446744073709551615, .str "\"\n\\\x01é\x7f", .flt 4609434218613702656]),
                          ("b", .obj [("", .arr []), ("k", .bool true)])]
    (∀ c ∈ print exLayer j, c.toNat ≥ 32) := by
  decide

open JsonText in
/-- non-vacuity of the extra hypotheses of `C17_roundtrip_chars` on a `Request` -/
example :
    let r : Request := { more := some true, method := "a.B", parameters := some (.obj [("x", .int 1)]) }
    RawPrintable (encode tyRequest r.toT) ∧ exLayer.Faithful (encode tyRequest r.toT) := by
  decide

end VV
