/-
C19 — the certification service never lets a deviating step pass; the canonical
sequence succeeds for any number of interleaved clients.

Quantifiers: every per-client state (any set of registered ids at any steps),
every id `fresh` that `new_client_id` might hand out, every request (any flags,
any method string, any `parameters` value), every number of canonical clients
with pairwise distinct ids and every interleaving of their sequences of any
length.  "Canonical" is typed: the request's call-mode flags are the step's, its
parameters deserialize (Model.Serde `decode`, i.e. serde's derive on the
generated `TestNN_Args`) to exactly the canonical typed value, and the client id
is registered at that step.  A JSON change that deserializes to the same typed
value is not a deviation.
-/
import VarlinkVerif.Lemmas.Cert
import VarlinkVerif.Model.CertTime
import VarlinkVerif.Props.C01
import VarlinkVerif.Props.C04

namespace VV

/-- `req` is the canonical request of step `k`, typed, from a client that is at step `k` -/
def CanonicalFor (cvt : Int → Nat) (st : CertState) (req : Request) (k : Step) : Prop :=
  req.method = k.method ∧ modeOk k.mode req = true ∧
  ∃ p cid, req.parameters = some p ∧ decode cvt k.argsTy p = some (k.wants cid) ∧ st.get cid = some k

/-- `req` is a canonical `Start` -/
def CanonicalStart (req : Request) : Prop := req.method = startMethod ∧ startOk req = true

/-! ### a reply without `error` is only ever written for the canonical request -/

/-- **C19 success ⇒ canonical.**  For every state, every fresh id and every
    request dispatched to the interface: if ANY reply written for it carries no
    `error` member — in particular if the replies are some step's success reply —
    then the request is a canonical `Start`, or it is the canonical request of a
    step `k`: method of `k`, exactly the call mode of `k`, parameters that
    deserialize to the canonical typed value of `k` for a client id that the
    state holds at step `k`.  Contrapositive = the property: a wrong or missing
    value, a wrong call mode, a step out of order, an unknown client id never gets
    a success reply. -/
theorem C19_success_implies_canonical (cvt : Int → Nat) (st : CertState) (fresh : String)
    (req : Request) (r : Reply) (hr : r ∈ certReplies cvt st fresh req) (he : r.error = none) :
    CanonicalStart req ∨ ∃ k, CanonicalFor cvt st req k := by
  unfold certReplies certHandle at hr
  by_cases hs : req.method = startMethod
  · by_cases ho : startOk req = true
    · exact Or.inl ⟨hs, ho⟩
    · simp only [hs, if_true, ho] at hr
      have := runActs_reply_err req _ _ r hr
      rw [he] at this; cases this
  · simp only [hs, if_false] at hr
    cases hk : stepOfMethod req.method with
    | none =>
      simp only [hk] at hr
      have := runActs_reply_err req _ _ r hr
      rw [he] at this; cases this
    | some k =>
      simp only [hk] at hr
      cases hp : req.parameters with
      | none =>
        simp only [hp] at hr
        have := runActs_reply_err req _ _ r hr
        rw [he] at this; cases this
      | some p =>
        simp only [hp] at hr
        cases hd : decode cvt k.argsTy p with
        | none =>
          simp only [hd] at hr
          have := runActs_replyTry_fail_err req _ _ r hr
          rw [he] at this; cases this
        | some args =>
          simp only [hd] at hr
          cases hc : clientIdOf args with
          | none => simp [hc, runActs] at hr
          | some cid =>
            simp only [hc] at hr
            cases hcc : checkClientId st cid k with
            | none =>
              simp only [hcc] at hr
              have := runActs_reply_err req _ _ r hr
              rw [he] at this; cases this
            | some st' =>
              simp only [hcc] at hr
              by_cases hm : (modeOk k.mode req && TVal.teq (k.wants cid) args) = true
              · simp only [Bool.and_eq_true] at hm
                have hargs : k.wants cid = args := teq_eq _ _ hm.2 (wants_plain k cid)
                exact Or.inr ⟨k, stepOfMethod_some hk, hm.1, p, cid, hp, by rw [hd, hargs],
                  (checkClientId_some hcc).1⟩
              · simp only [hm] at hr
                have := runActs_reply_err req _ _ r hr
                rw [he] at this; cases this

/-- every reply the interface writes for a non-canonical request names one of
    the three error kinds of the property (or `MethodNotFound` for a method the
    interface does not have) -/
theorem C19_deviation_gets_error (cvt : Int → Nat) (st : CertState) (fresh : String)
    (req : Request) (hstart : ¬ CanonicalStart req) (hk : ∀ k, ¬ CanonicalFor cvt st req k)
    (r : Reply) (hr : r ∈ certReplies cvt st fresh req) :
    r.error = some sCertificationError ∨ r.error = some sClientIdError ∨
    r.error = some sInvalidParameter ∨ r.error = some sMethodNotFound := by
  have hne : r.error ≠ none := fun he =>
    (C19_success_implies_canonical cvt st fresh req r hr he).elim hstart (fun ⟨k, h⟩ => hk k h)
  unfold certReplies certHandle at hr
  by_cases hs : req.method = startMethod
  · by_cases ho : startOk req = true
    · exact absurd ⟨hs, ho⟩ hstart
    · simp only [hs, if_true, ho] at hr
      exact Or.inl (runActs_reply_err req _ _ r hr)
  · simp only [hs, if_false] at hr
    cases hk' : stepOfMethod req.method with
    | none =>
      simp only [hk'] at hr
      exact Or.inr (Or.inr (Or.inr (runActs_reply_err req _ _ r hr)))
    | some k =>
      simp only [hk'] at hr
      cases hp : req.parameters with
      | none =>
        simp only [hp] at hr
        exact Or.inr (Or.inr (Or.inl (runActs_reply_err req _ _ r hr)))
      | some p =>
        simp only [hp] at hr
        cases hd : decode cvt k.argsTy p with
        | none =>
          simp only [hd] at hr
          exact Or.inr (Or.inr (Or.inl (runActs_replyTry_fail_err req _ _ r hr)))
        | some args =>
          simp only [hd] at hr
          cases hc : clientIdOf args with
          | none => simp [hc, runActs] at hr
          | some cid =>
            simp only [hc] at hr
            cases hcc : checkClientId st cid k with
            | none =>
              simp only [hcc] at hr
              exact Or.inr (Or.inl (runActs_reply_err req _ _ r hr))
            | some st' =>
              simp only [hcc] at hr
              by_cases hm : (modeOk k.mode req && TVal.teq (k.wants cid) args) = true
              · exfalso
                simp only [Bool.and_eq_true] at hm
                have hargs : k.wants cid = args := teq_eq _ _ hm.2 (wants_plain k cid)
                exact hk k ⟨stepOfMethod_some hk', hm.1, p, cid, hp, by rw [hd, hargs],
                  (checkClientId_some hcc).1⟩
              · simp only [hm] at hr
                exact Or.inl (runActs_reply_err req _ _ r hr)

/-- a oneway call gets nothing at all — success or not (`Test11`'s verdict is
    therefore not observable on the wire; the property allows "possibly nothing") -/
theorem C19_oneway_gets_nothing (cvt : Int → Nat) (st : CertState) (fresh : String) (req : Request)
    (ho : isOneway req = true) : certReplies cvt st fresh req = [] := by
  unfold certReplies
  rw [runActs_oneway req ho]

/-! ### the canonical requests pass -/

/-- the canonical request is `CanonicalFor` its step (non-vacuity of the notion) -/
theorem C19_canonical_request_is_canonical (cvt : Int → Nat) (st : CertState) (k : Step) (cid : String)
    (h : st.get cid = some k) : CanonicalFor cvt st (canonStepReq k cid) k :=
  ⟨canonStepReq_method k cid, canonStepReq_mode k cid, _, cid, canonStepReq_params k cid,
    decode_canon_params cvt k cid, h⟩

/-- **C19 canonical sequences succeed, any number of clients, any interleaving.**
    Clients `c = 0, 1, …` are handed pairwise distinct ids `idOf c` by their
    `Start`; `sched` says whose turn it is (any list: any number of clients, any
    interleaving, clients may be left unfinished or scheduled after they are
    through); the server starts in ANY state `st0` (ids of earlier clients at any
    steps).  Then every request of every client gets exactly the success replies of
    its step.  Steps are atomic (`RwLock` write guard), so this covers concurrent
    connections. -/
theorem C19_canonical_succeeds (cvt : Int → Nat) (idOf : Nat → String)
    (hinj : ∀ a b, idOf a = idOf b → a = b) (st0 : CertState) (sched : List Nat) :
    ∀ e ∈ runSched cvt idOf st0 (fun _ => .start) sched,
      e.2.2 = e.2.1.successReplies (idOf e.1) :=
  runSched_all_success cvt idOf hinj sched st0 (fun _ => .start) (fun _ _ h => by cases h)

set_option maxRecDepth 100000 in
/-- the statement is not vacuous: three clients, interleaved, all 39 requests get
    their success replies, the last one `all_ok: true` -/
example :
    let evs := runSched (fun _ => 0) (fun c => "id" ++ toString c) [] (fun _ => .start)
      ((List.range 13).flatMap fun _ => [2, 0, 1])
    evs.length = 39 ∧
    (evs.getLast?.map fun e => e.2.2) =
      some [Reply.params (some (.obj [("all_ok", .bool true)]))] := by
  decide

/-! ### what a failed check does to the client (as written in main.rs) -/

/-- **`check_client_id` advances before the parameters are checked**: a request
    for the expected step whose parameters are well typed but wrong (or whose call
    mode is wrong) is answered with `CertificationError` — and the client is moved
    to the next step all the same. -/
theorem C19_failed_check_still_advances (cvt : Int → Nat) (st : CertState) (fresh : String)
    (req : Request) (k : Step) (p : Json) (args : TVal) (cid : String)
    (hm : req.method = k.method) (hp : req.parameters = some p)
    (hd : decode cvt k.argsTy p = some args) (hc : clientIdOf args = some cid)
    (hg : st.get cid = some k)
    (hbad : (modeOk k.mode req && TVal.teq (k.wants cid) args) = false) :
    certHandle cvt st fresh req =
      (st.set cid k.next, [.reply (certError (k.wantsJson cid) (gotOf req))]) := by
  unfold certHandle
  rw [hm, if_neg (method_ne_start k), stepOfMethod_method]
  simp only [hp, hd, hc, checkClientId_of_get hg, hbad]
  simp

/-- consequence, on a concrete history: a client that sends a wrong `Test02`
    (`bool: false`) gets `CertificationError`, cannot repeat `Test02`
    (`ClientIdError`), but `Test03` passes — the sequence goes on to
    `End → all_ok: true` although a step failed.  (Each deviating request is
    answered with an error, which is what C19 demands; the final verdict of the
    service is weaker than one might expect.) -/
example :
    let st1 := (certHandle (fun _ => 0) [] "c" canonStartReq).1
    let st2 := (certHandle (fun _ => 0) st1 "x" (canonStepReq .t01 "c")).1
    let bad : Request := { method := Step.t02.method,
                           parameters := some (.obj [("bool", .bool false), ("client_id", .str "c")]) }
    let st3 := (certHandle (fun _ => 0) st2 "x" bad).1
    ((certReplies (fun _ => 0) st2 "x" bad).map (·.error)) = [some sCertificationError] ∧
    ((certReplies (fun _ => 0) st3 "x" (canonStepReq .t02 "c")).map (·.error)) = [some sClientIdError] ∧
    ((certReplies (fun _ => 0) st3 "x" (canonStepReq .t03 "c")).map (·.error)) = [none] := by
  decide

/-! ### clients do not disturb each other -/

/-- a call changes the state at most at one id: the fresh one (`Start`) or the
    client id its parameters name -/
theorem C19_state_changes_at_one_id (cvt : Int → Nat) (st : CertState) (fresh : String)
    (req : Request) :
    ∃ id, ∀ x, x ≠ id → (certHandle cvt st fresh req).1.get x = st.get x := by
  unfold certHandle
  by_cases hs : req.method = startMethod
  · by_cases ho : startOk req = true
    · exact ⟨fresh, fun x hx => by simp only [hs, if_true, ho]; exact get_set_ne _ _ _ _ (Ne.symm hx)⟩
    · exact ⟨fresh, fun x _ => by simp only [hs, if_true, ho]; rfl⟩
  · simp only [hs, if_false]
    cases hk : stepOfMethod req.method with
    | none => exact ⟨fresh, fun _ _ => rfl⟩
    | some k =>
      dsimp only
      cases hp : req.parameters with
      | none => exact ⟨fresh, fun _ _ => rfl⟩
      | some p =>
        dsimp only
        cases hd : decode cvt k.argsTy p with
        | none => exact ⟨fresh, fun _ _ => rfl⟩
        | some args =>
          dsimp only
          cases hc : clientIdOf args with
          | none => exact ⟨fresh, fun _ _ => rfl⟩
          | some cid =>
            dsimp only
            cases hcc : checkClientId st cid k with
            | none => exact ⟨fresh, fun _ _ => rfl⟩
            | some st' =>
              dsimp only
              refine ⟨cid, fun x hx => ?_⟩
              have hst := (checkClientId_some hcc).2
              by_cases hm : (modeOk k.mode req && TVal.teq (k.wants cid) args) = true
              · simp only [hm, if_true]; rw [hst]; exact get_set_ne _ _ _ _ (Ne.symm hx)
              · simp only [hm]; rw [hst]; exact get_set_ne _ _ _ _ (Ne.symm hx)

/-! ### from the interface to the server process -/

/-- a request whose method splits (at the last dot) to `org.varlink.certification`
    is answered by the server with exactly the replies of the interface's `call`
    (routing itself is C03); the method strings of all steps do split that way -/
theorem C19_routed_to_interface (cvt : Int → Nat) (c : Consts) (desc : String) (st : CertState)
    (fresh : String) (req : Request) (hi : ifaceOf req.method = some certName) :
    (callOne c (certService cvt desc st fresh) req).out = certReplies cvt st fresh req := by
  have hl : (certService cvt desc st fresh).lookup certName = some (certIface cvt desc st fresh) := by
    simp [Service.lookup, certService, certIface]
  rw [callOne_route c _ req certName hi,
    routeCall_some c _ req {} certName (certIface cvt desc st fresh) (by decide) hl]
  rfl

/-- **C19 on the wire**: whatever the state, a reply without `error` leaves the
    server for a request addressed to the interface only if that request is
    canonical (typed, in order) -/
theorem C19_success_implies_canonical_on_the_wire (cvt : Int → Nat) (c : Consts) (desc : String)
    (st : CertState) (fresh : String) (req : Request) (hi : ifaceOf req.method = some certName)
    (r : Reply) (hr : r ∈ (callOne c (certService cvt desc st fresh) req).out) (he : r.error = none) :
    CanonicalStart req ∨ ∃ k, CanonicalFor cvt st req k := by
  rw [C19_routed_to_interface cvt c desc st fresh req hi] at hr
  exact C19_success_implies_canonical cvt st fresh req r hr he

/-! ### a step passes at most once; concurrent requests are sequential histories

Concurrency.  One call holds the `RwLock` write guard from the lookup of the
client id to the update of its step, so the table is read and written
atomically per request: a concurrent execution on any number of connections is
SOME sequential history (`statesBefore`) of the same requests — that is the
modelling assumption (a check that looked the step up and advanced it under two
separate lock acquisitions would not satisfy it).  The theorems below are about
all sequential histories, hence about all linearisations. -/

/-- `CanonicalFor` with the client id exposed -/
def CanonicalForId (cvt : Int → Nat) (st : CertState) (req : Request) (k : Step) (cid : String) : Prop :=
  req.method = k.method ∧ modeOk k.mode req = true ∧
  ∃ p, req.parameters = some p ∧ decode cvt k.argsTy p = some (k.wants cid) ∧ st.get cid = some k

theorem canonicalFor_of_id {cvt : Int → Nat} {st : CertState} {req : Request} {k : Step} {cid : String}
    (h : CanonicalForId cvt st req k cid) : CanonicalFor cvt st req k :=
  ⟨h.1, h.2.1, h.2.2.choose, cid, h.2.2.choose_spec⟩

/-- a canonical request consumes the step: afterwards the client is at the next one -/
theorem C19_success_consumes_step (cvt : Int → Nat) (st : CertState) (fresh : String) (req : Request)
    (k : Step) (cid : String) (h : CanonicalForId cvt st req k cid) :
    (certHandle cvt st fresh req).1.get cid = some k.next := by
  obtain ⟨hm, hmode, p, hp, hd, hg⟩ := h
  unfold certHandle
  rw [hm, if_neg (method_ne_start k), stepOfMethod_method]
  simp only [hp, hd, clientIdOf_wants, checkClientId_of_get hg, hmode,
    teq_refl _ (wants_plain k cid), Bool.and_self, if_true]
  exact get_set_same _ _ _

/-- **a step is answered with success at most once per client**: in every
    sequential history of calls (any requests whatsoever, by anybody, on any
    connection) in which the id `cid` is not handed out again, once the canonical
    request of step `k ≠ End` of client `cid` has passed, no later request is
    canonical for `(cid, k)` — so by `C19_success_implies_canonical` none gets
    that step's success reply: a completed step cannot be replayed.  (`End` leaves
    the client at `End` and can be repeated, as written in main.rs.) -/
theorem C19_step_succeeds_at_most_once (cvt : Int → Nat) (cid : String) (k : Step) (hk : k ≠ .fin)
    (st : CertState) (fresh : String) (req : Request) (hist : List (String × Request))
    (hfresh : ∀ e ∈ hist, e.1 ≠ cid) (hc : CanonicalForId cvt st req k cid) :
    ∀ sr ∈ statesBefore cvt (certHandle cvt st fresh req).1 hist,
      ¬ CanonicalForId cvt sr.1 sr.2 k cid := by
  intro sr hsr hcan
  have h1 : rankOf (certHandle cvt st fresh req).1 cid = k.next.rank := by
    simp [rankOf, C19_success_consumes_step cvt st fresh req k cid hc]
  have h2 := rankOf_mono_hist cvt cid hist _ hfresh sr hsr
  have h3 : rankOf sr.1 cid = k.rank := by simp [rankOf, hcan.2.2.choose_spec.2.2]
  have h4 := rank_next_gt k hk
  omega

/-- **the same step of the same client on n connections at once**: whatever the
    order in which the n identical canonical requests take the lock, the first
    gets the success replies and every other one `ClientIdError` -/
theorem C19_identical_requests_race (cvt : Int → Nat) (k : Step) (hk : k ≠ .fin) (cid : String) :
    ∀ (n : Nat) (st : CertState) (fresh : String), st.get cid = some k →
      (statesBefore cvt st (List.replicate (n + 1) (fresh, canonStepReq k cid))).map
        (fun sr => (certHandle cvt sr.1 fresh sr.2).2) =
      k.successActs :: List.replicate n [.reply clientIdError] := by
  intro n st fresh hg
  have hstep := certHandle_canon_step cvt st fresh k cid hg
  simp only [List.replicate_succ, statesBefore, List.map_cons, hstep]
  congr 1
  -- afterwards the client is at `k.next ≠ k`: every further copy is out of order
  have hne : k.next ≠ k := fun e => by
    have := rank_next_gt k hk; rw [e] at this; exact Nat.lt_irrefl _ this
  have hrej : ∀ (m : Nat) (s : CertState), s.get cid = some k.next →
      (statesBefore cvt s (List.replicate m (fresh, canonStepReq k cid))).map
        (fun sr => (certHandle cvt sr.1 fresh sr.2).2) = List.replicate m [.reply clientIdError] := by
    intro m
    induction m with
    | zero => intro s _; rfl
    | succ m ih =>
      intro s hs
      have hh : certHandle cvt s fresh (canonStepReq k cid) = (s, [.reply clientIdError]) := by
        unfold certHandle
        rw [canonStepReq_method, if_neg (method_ne_start k), stepOfMethod_method]
        simp only [canonStepReq_params, decode_canon_params, clientIdOf_wants]
        have : checkClientId s cid k = none := by simp [checkClientId, hs, hne]
        simp only [this]
      simp only [List.replicate_succ, statesBefore, List.map_cons, hh]
      rw [ih s hs]
  exact hrej n _ (get_set_same _ _ _)

/-! ### the lifetime of a client id (comparison and constant extracted from main.rs) -/

/-- **an id younger than 12 hours is alive**: the expiry test of
    `check_lifetime_timeout` — extracted from the Rust source on every run, elapsed
    time in milliseconds — is false for every age below 12 h.  (A unit mix-up in
    that comparison, e.g. milliseconds against the seconds constant, breaks this
    obligation.) -/
theorem C19_id_alive_for_12h (elapsedMs : Nat) (h : elapsedMs < twelveHoursMs) :
    ExtractedCert.expired elapsedMs ExtractedCert.maxLifetime = false := by
  unfold ExtractedCert.expired ExtractedCert.maxLifetime
  unfold twelveHoursMs at h
  simp only [decide_eq_false_iff_not]
  omega

/-- … and it does expire: one second past 12 hours the test is true -/
theorem C19_id_expires (elapsedMs : Nat) (h : elapsedMs ≥ twelveHoursMs + 1000) :
    ExtractedCert.expired elapsedMs ExtractedCert.maxLifetime = true := by
  unfold ExtractedCert.expired ExtractedCert.maxLifetime
  unfold twelveHoursMs at h
  simp only [decide_eq_true_eq]
  omega

/-- the sweep removes nothing while every registered id is younger than 12 h -/
theorem sweep_noop (now : Nat) : ∀ (born : List (Nat × String)) (st : CertState),
    (∀ e ∈ born, now - e.1 < twelveHoursMs) → sweep now born st = (born, st)
  | [], _, _ => rfl
  | (b, id) :: rest, st, h => by
    have := C19_id_alive_for_12h (now - b) (h (b, id) List.mem_cons_self)
    simp [sweep, this]

/-- **the untimed model is exact within the lifetime**: at any time at which every
    registered id is younger than 12 h, a call does to the table and answers exactly
    what `certHandle` says -/
theorem C19_lifetime_sweep_is_noop_within_12h (cvt : Int → Nat) (now : Nat) (ts : TimedState)
    (fresh : String) (req : Request) (h : ∀ e ∈ ts.born, now - e.1 < twelveHoursMs) :
    ((certHandleTimed cvt now ts fresh req).1.st, (certHandleTimed cvt now ts fresh req).2) =
      certHandle cvt ts.st fresh req := by
  unfold certHandleTimed
  by_cases hc : (reachesCheck cvt req && req.method != startMethod) = true
  · simp only [hc, if_true, sweep_noop now ts.born ts.st h]
  · simp only [hc]
    rfl

end VV
