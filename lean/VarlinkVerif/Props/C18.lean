/-
C18 — the CLI bridge is transparent.

`Proxy.run` is `proxy::handle` (resolver mode) at frame level, `Proxy.bridge` the same
at byte level, `Proxy.upgradedPump` / `Proxy.directMode` the byte pumps,
`Proxy.idealRun` the specification: what the client observes when it talks to the
services directly (Lemmas/Proxy.lean).  The model is the code after the fix
commits 723e399 … aebf686 (unknown interface / unreachable address / method
without dot / parameterless GetInterfaceDescription are answered and the loop goes
on, GetInfo goes to the configured resolver, bytes buffered behind an upgrading
request go to the service and what the service sent behind its reply goes to the client,
`--connect` works without a child, data that arrived
before a hang-up is delivered, the end of the client's stream is passed on to the service
as a half-close: aebf686).

The full statement — for every world and every request list
`(run w {} fs).groups = idealRun w 0 [] rs ∧ status = eof` — is still false:
`C18_transparent_partial` proves it under the hypotheses that remain; every
`_counterexample` drops one of them and exhibits a concrete witness (replayed on the
real binary by the `proxy` suite, harness/corpus/proxy.txt).  Process behaviour
(epoll close watching, thread shutdown order, exit status) is observed by the suite,
not proved.
-/
import VarlinkVerif.Lemmas.Proxy
import VarlinkVerif.Props.C02

namespace VV
open Proxy

/-- the full statement of transparency for one world and request list -/
def Transparent (w : World) (rs : List Request) : Prop :=
  (run w {} (rs.map .req)).groups = idealRun w 0 [] rs ∧
  (run w {} (rs.map .req)).status = .eof

instance (w : World) (rs : List Request) : Decidable (Transparent w rs) := by
  unfold Transparent; infer_instance

/-- **C18 transparency (partial)**: whatever the configured resolver address, whether or
    not methods have a dot, interfaces resolve, addresses connect or
    `GetInterfaceDescription` has parameters — if the resolver's answers do not change
    during the session, interface names are not empty, `GetInterfaceDescription`
    parameters are well typed when present, and every service that is reached gets no
    `upgrade` flag and answers with `continues`* + one final reply (or not at all when
    oneway) on a connection it keeps open — then the bridged session is the direct
    one: the reply groups are those of the specification and the bridge is still
    serving at the end; a request is forwarded (unchanged but for the `GetInfo`
    redirection) exactly when its interface resolves to an address that connects,
    otherwise it is answered with the standard error; and for every service the
    requests it receives and the replies the client sees for them are those of one
    direct connection (`serve`) carrying just these requests. -/
theorem C18_transparent_partial (w : World) (rs : List Request) (hs : StaticResolver w)
    (hg : ∀ r ∈ rs, Good w r) :
    Transparent w rs ∧
    (run w {} (rs.map .req)).consumed = rs.length ∧
    (run w {} (rs.map .req)).groups = rs.map (expectedGroup w) ∧
    (run w {} (rs.map .req)).sent = (rs.map (sentOf w)).flatten ∧
    ∀ a svc, w.svcAt a = some svc →
      let mine := rs.filter (fun r => addrOf w r == some a)
      (serve w.consts svc (mine.map fun r => .req (rewrite r))).status = .eof ∧
      (serve w.consts svc (mine.map fun r => .req (rewrite r))).groups = mine.map (expectedGroup w) := by
  have hrun := run_good w hs rs {} 0 (Or.inl rfl) hg
  obtain ⟨h1, h2, h3, h4, h5⟩ := hrun
  refine ⟨⟨h4, h1⟩, h2, h3, h5, ?_⟩
  intro a svc hsvc mine
  have hmine : ∀ r ∈ mine, Good w r ∧ addrOf w r = some a := by
    intro r hr
    have := List.mem_filter.1 hr
    exact ⟨hg r this.1, by simpa using this.2⟩
  have hall : ∀ r ∈ mine.map rewrite,
      (callOne w.consts svc r).ok = true ∧ (callOne w.consts svc r).upgraded = none := by
    intro r hr
    obtain ⟨r0, hr0, rfl⟩ := List.mem_map.1 hr
    obtain ⟨hg0, ha⟩ := hmine r0 hr0
    have := good_routed w r0 hg0 a svc ha hsvc
    exact ⟨this.1, this.2.1⟩
  have hsv := serve_all_ok w.consts svc (mine.map rewrite) hall
  simp only [List.map_map] at hsv
  refine ⟨hsv.1, ?_⟩
  rw [show (mine.map fun r => Frame.req (rewrite r)) = mine.map (Frame.req ∘ rewrite) from rfl, hsv.2]
  apply List.map_congr_left
  intro r0 hr0
  obtain ⟨hg0, ha⟩ := hmine r0 hr0
  exact (good_routed w r0 hg0 a svc ha hsvc).2.2.symm

/-! ### concrete worlds for non-vacuity and the counterexamples -/

def exReply (s : String) : Reply := Reply.params (some (.str s))

/-- a service `a.b`: `Abort` replies and then fails (the connection is closed), `Silent`
    fails without replying, `Quiet` never replies, `More` streams, everything else replies once -/
def exSvc (tag : String) : Service :=
  { vendor := "v", product := "p", version := "1", url := "u",
    ifaces := [{ name := "a.b", desc := "d",
                 script := fun r =>
                   if r.method == "a.b.Abort" then [.reply (exReply tag), .fail]
                   else if r.method == "a.b.Silent" then [.fail]
                   else if r.method == "a.b.Quiet" then []
                   else if r.method == "a.b.More" then
                     [.setContinues true, .reply (exReply "1"), .setContinues false, .reply (exReply tag)]
                   else [.reply (exReply tag)] }] }

def exResolverSvc : Service :=
  { vendor := "r", product := "r", version := "1", url := "u",
    ifaces := [{ name := "org.varlink.resolver", desc := "d", script := fun _ => [.reply (exReply "resolver-info")] }] }

/-- resolver configured at `R`; `a.b` lives at `A`, `dead.x` resolves to an address nobody listens on -/
def exWorld : World :=
  { consts := { serviceDesc := "" },
    resolverAddr := "R",
    resolve := fun _ i => if i == "a.b" then some "A" else if i == "dead.x" then some "D" else none,
    svcAt := fun a => if a == "A" then some (exSvc "A") else if a == "R" then some exResolverSvc else none }

def rq (m : String) : Request := { method := m }

/-- a service that registers an interface with the empty name -/
def exSvcEmptyName : Service :=
  { vendor := "v", product := "p", version := "1", url := "u",
    ifaces := [{ name := "", desc := "d", script := fun _ => [Act.reply (exReply "E")] }] }

/-- non-vacuity of `C18_transparent_partial`: a session that switches targets, streams, sends a
    oneway call, asks the configured resolver for service info, asks for an interface
    description — and contains an unknown interface, a method without a dot, an unreachable
    address and a parameterless GetInterfaceDescription (the four witnesses of the defects
    fixed by 5599eab / 035a260 / 86882c4) -/
example :
    let w := exWorld
    let rs := [rq "a.b.M", rq "org.varlink.service.GetInfo", { rq "a.b.More" with more := some true },
               { rq "a.b.M" with oneway := some true },
               { rq "org.varlink.service.GetInterfaceDescription" with
                 parameters := some (.obj [("interface", .str "a.b")]) },
               rq "no.such.M", rq "nodot", rq "dead.x.M", rq "org.varlink.service.GetInterfaceDescription",
               rq "a.b.M"]
    (run w {} (rs.map .req)).groups =
      [[exReply "A"], [exReply "resolver-info"], [{ exReply "1" with continues := some true }, exReply "A"], [],
       [Reply.params (some (.obj [("description", .str "d")]))],
       [errInterfaceNotFound "no.such"], [errInterfaceNotFound "nodot"], [errInterfaceNotFound "dead.x"],
       [errInvalidParameter "parameters"], [exReply "A"]] ∧
    (run w {} (rs.map .req)).status = .eof ∧
    (run w {} (rs.map .req)).sent.map (·.1) = ["A", "R", "A", "A", "A", "A"] ∧
    Transparent w rs := by
  decide +kernel

/-- the hypotheses of `C18_transparent_partial` are met by concrete calls: a plain call, a
    streaming call, a oneway call, the redirected `GetInfo`, an unknown interface, a method
    without a dot, an unreachable address, a parameterless `GetInterfaceDescription` -/
example :
    (∀ r ∈ [rq "a.b.M", { rq "a.b.More" with more := some true }, { rq "a.b.M" with oneway := some true },
            rq "org.varlink.service.GetInfo", rq "no.such.M", rq "nodot", rq "dead.x.M",
            rq "org.varlink.service.GetInterfaceDescription"], Good exWorld r) ∧
    StaticResolver exWorld := by
  refine ⟨?_, fun _ _ _ => rfl⟩
  intro r hr
  simp only [List.mem_cons, List.not_mem_nil, or_false] at hr
  have hA : ∀ a svc, (if ("a.b" == "a.b") = true then some "A" else none : Option String) = some a →
      exWorld.svcAt a = some svc → svc = exSvc "A" := by
    intro a svc ha hs
    simp at ha; subst ha
    have : exWorld.svcAt "A" = some (exSvc "A") := rfl
    rw [this] at hs; exact (Option.some.inj hs).symm
  rcases hr with h | h | h | h | h | h | h | h <;> subst h <;> unfold Good
  · have hsel : selectIface (rewrite (rq "a.b.M")) = .iface "a.b" := by decide +kernel
    rw [hsel]
    refine ⟨by decide, ?_⟩
    intro a svc ha hs
    have ha' : a = "A" := by
      have : resolveAddr exWorld 0 "a.b" = some "A" := by decide +kernel
      rw [this] at ha; exact (Option.some.inj ha).symm
    subst ha'
    have : svc = exSvc "A" := by
      have h0 : exWorld.svcAt "A" = some (exSvc "A") := rfl
      rw [h0] at hs; exact (Option.some.inj hs).symm
    subst this
    unfold Final
    decide +kernel
  · have hsel : selectIface (rewrite { rq "a.b.More" with more := some true }) = .iface "a.b" := by decide +kernel
    rw [hsel]
    refine ⟨by decide, ?_⟩
    intro a svc ha hs
    have ha' : a = "A" := by
      have : resolveAddr exWorld 0 "a.b" = some "A" := by decide +kernel
      rw [this] at ha; exact (Option.some.inj ha).symm
    subst ha'
    have : svc = exSvc "A" := by
      have h0 : exWorld.svcAt "A" = some (exSvc "A") := rfl
      rw [h0] at hs; exact (Option.some.inj hs).symm
    subst this
    unfold Final
    decide +kernel
  · have hsel : selectIface (rewrite { rq "a.b.M" with oneway := some true }) = .iface "a.b" := by decide +kernel
    rw [hsel]
    refine ⟨by decide, ?_⟩
    intro a svc ha hs
    have ha' : a = "A" := by
      have : resolveAddr exWorld 0 "a.b" = some "A" := by decide +kernel
      rw [this] at ha; exact (Option.some.inj ha).symm
    subst ha'
    have : svc = exSvc "A" := by
      have h0 : exWorld.svcAt "A" = some (exSvc "A") := rfl
      rw [h0] at hs; exact (Option.some.inj hs).symm
    subst this
    unfold Final
    decide +kernel
  · have hsel : selectIface (rewrite (rq "org.varlink.service.GetInfo")) = .iface "org.varlink.resolver" := by
      decide +kernel
    rw [hsel]
    refine ⟨by decide, ?_⟩
    intro a svc ha hs
    have ha' : a = "R" := by
      have : resolveAddr exWorld 0 "org.varlink.resolver" = some "R" := by decide +kernel
      rw [this] at ha; exact (Option.some.inj ha).symm
    subst ha'
    have : svc = exResolverSvc := by
      have h0 : exWorld.svcAt "R" = some exResolverSvc := rfl
      rw [h0] at hs; exact (Option.some.inj hs).symm
    subst this
    unfold Final
    decide +kernel
  · have hsel : selectIface (rewrite (rq "no.such.M")) = .iface "no.such" := by decide +kernel
    rw [hsel]
    refine ⟨by decide, ?_⟩
    intro a svc ha _
    have : resolveAddr exWorld 0 "no.such" = none := by decide +kernel
    rw [this] at ha; cases ha
  · have hsel : selectIface (rewrite (rq "nodot")) = .noDot := by decide +kernel
    rw [hsel]; trivial
  · have hsel : selectIface (rewrite (rq "dead.x.M")) = .iface "dead.x" := by decide +kernel
    rw [hsel]
    refine ⟨by decide, ?_⟩
    intro a svc ha hs
    have ha' : a = "D" := by
      have : resolveAddr exWorld 0 "dead.x" = some "D" := by decide +kernel
      rw [this] at ha; exact (Option.some.inj ha).symm
    subst ha'
    have h0 : exWorld.svcAt "D" = none := rfl
    rw [h0] at hs; cases hs
  · have hsel : selectIface (rewrite (rq "org.varlink.service.GetInterfaceDescription")) = .badArgs := by
      decide +kernel
    rw [hsel]; rfl

/-- **dropped hypothesis: the resolver's answers do not change** — the `last_iface`
    cache keeps the old address for consecutive requests to the same interface -/
theorem C18_stale_cache_counterexample :
    let w : World := { exWorld with
      resolve := fun k i => if i == "a.b" then some (if k == 0 then "A" else "B") else none,
      svcAt := fun a => if a == "A" then some (exSvc "A") else if a == "B" then some (exSvc "B") else none }
    let rs := [rq "a.b.M", rq "a.b.M"]
    (run w {} (rs.map .req)).groups = [[exReply "A"], [exReply "A"]] ∧
    (run w {} (rs.map .req)).sent.map (·.1) = ["A", "A"] ∧
    idealRun w 0 [] rs = [[exReply "A"], [exReply "B"]] ∧
    ¬ Transparent w rs := by
  decide +kernel

/-- **dropped hypothesis: the service keeps the connection open (no per-connection
    state)** — directly, a service that closes the connection (after a reply, or
    without one) answers nothing afterwards; through the bridge every request gets a
    fresh connection -/
theorem C18_connection_state_counterexample :
    let w := exWorld
    (run w {} ([rq "a.b.Abort", rq "a.b.M"].map .req)).groups = [[exReply "A"], [exReply "A"]] ∧
    idealRun w 0 [] [rq "a.b.Abort", rq "a.b.M"] = [[exReply "A"], []] ∧
    ¬ Transparent w [rq "a.b.Abort", rq "a.b.M"] ∧
    (run w {} ([rq "a.b.Silent", rq "a.b.M"].map .req)).groups = [[], [exReply "A"]] ∧
    idealRun w 0 [] [rq "a.b.Silent", rq "a.b.M"] = [[], []] ∧
    ¬ Transparent w [rq "a.b.Silent", rq "a.b.M"] := by
  decide +kernel

/-- **dropped hypothesis: the service answers every call** — the bridge waits for a
    reply that never comes while a direct client's next request is served -/
theorem C18_unanswered_call_counterexample :
    let w := exWorld
    let rs := [rq "a.b.Quiet", rq "a.b.M"]
    (run w {} (rs.map .req)).groups = [[]] ∧
    (run w {} (rs.map .req)).status = .hang ∧
    idealRun w 0 [] rs = [[], [exReply "A"]] ∧
    ¬ Transparent w rs := by
  decide +kernel

/-- **dropped hypothesis: GetInterfaceDescription parameters are well typed** — the
    bridge exits with an error (`from_value(..)?`); a service closes only its own
    connection -/
theorem C18_illtyped_description_counterexample :
    let w := exWorld
    let illTyped : Request :=
      { method := "org.varlink.service.GetInterfaceDescription", parameters := some (.obj [("interface", .int 5)]) }
    let rs := [illTyped, rq "a.b.M"]
    (run w {} (rs.map .req)).groups = [[]] ∧
    (run w {} (rs.map .req)).status = .error ∧
    idealRun w 0 [] rs = [[], [exReply "A"]] ∧
    ¬ Transparent w rs := by
  decide +kernel

/-- **dropped hypothesis: the interface name is not empty** — the cache starts with the
    empty name, so the interface of a method `.M` is never looked up -/
theorem C18_empty_interface_counterexample :
    let w : World := { exWorld with
      resolve := fun _ i => if i == "" then some "E" else none,
      svcAt := fun a => if a == "E" then some exSvcEmptyName else none }
    let rs := [rq ".M"]
    (run w {} (rs.map .req)).groups = [[errInterfaceNotFound ""]] ∧
    idealRun w 0 [] rs = [[exReply "E"]] ∧
    ¬ Transparent w rs := by
  decide +kernel

/-! ### byte level: the client's stream under any segmentation -/

/-- **C18 the bridge's reading is chunking invariant**: `bridge` reads the client's
    descriptor through a `BufReader`; for every read schedule of the same byte stream
    it forwards the same requests and writes the same replies as `run` on the decoded
    frames of the stream, and when a request hands over to the byte pump, what the
    `BufReader` still holds plus what the descriptor has not delivered yet is exactly
    the stream after that request. -/
theorem C18_bridge_chunking_invariance (w : World) (dec : Bytes → Frame) (r1 r2 : List Bytes)
    (h1 : NoEmpty r1) (h2 : NoEmpty r2) (he : r1.flatten = r2.flatten) :
    (bridge w dec r1).groups = (bridge w dec r2).groups ∧
    (bridge w dec r1).sent = (bridge w dec r2).sent ∧
    (bridge w dec r1).status = (bridge w dec r2).status ∧
    (bridge w dec r1).groups = (run w {} (clientFrames dec r1.flatten)).groups ∧
    (∀ a i, (bridge w dec r1).status = .upgraded a i →
      (bridge w dec r1).buffered ++ (bridge w dec r1).rest.flatten =
      (bridge w dec r2).buffered ++ (bridge w dec r2).rest.flatten) := by
  have s1 := bridge_spec w dec r1 h1
  have s2 := bridge_spec w dec r2 h2
  simp only [he] at s1
  simp only at s2
  obtain ⟨g1, n1, t1, u1⟩ := s1
  obtain ⟨g2, n2, t2, u2⟩ := s2
  refine ⟨by rw [g1, g2], by rw [n1, n2], by rw [t1, t2], by rw [g1, he], ?_⟩
  intro a i hu
  rw [t1] at hu
  rw [u1 a i hu, u2 a i hu]

/-- a quirk the byte-level model mirrors (proxy.rs `buf.pop()` is unconditional): a last
    message that lacks its NUL but carries one extra byte is executed when the client closes,
    whereas a service reading the same bytes directly treats it as incomplete -/
example :
    let dec : Bytes → Frame := fun m => if m = [1, 2] then .req (rq "a.b.M") else .bad
    (bridge exWorld dec [[1, 2, 9]]).groups = [[exReply "A"]] ∧ (bridge exWorld dec [[1, 2, 9]]).status = .eof ∧
    (handle exWorld.consts (exSvc "A") dec [[1, 2, 9]]).groups = [] := by
  decide +kernel

/-! ### upgraded sessions and direct mode: byte pumps -/

/-- **C18 upgraded hand-over**: whatever the client had already sent behind the upgrading
    request (`buffered`) and whatever it sends later, under any chunking, the service
    receives exactly these bytes in order (84fe826) and the client receives exactly the
    service's output, also what the service sent right behind its reply to the upgrading
    call (847b000). -/
theorem C18_upgraded_pump (svcOut : Bytes → Bytes) (buffered : Bytes) (later : List Bytes) :
    (upgradedPump svcOut buffered later).toService = buffered ++ later.flatten ∧
    (upgradedPump svcOut buffered later).toClient = svcOut (buffered ++ later.flatten) := by
  simp [upgradedPump, copyLoop_eq_flatten]

/-- the hand-over as it was before 847b000: `readAhead` of the service's bytes had been read,
    together with the reply to the upgrading call, into the `BufReader` used for that reply and
    were dropped with it -/
def upgradedPumpBefore847b000 (svcOut : Bytes → Bytes) (buffered : Bytes) (later : List Bytes) (readAhead : Nat) :
    Pumped :=
  { toService := buffered ++ copyLoop later, toClient := (svcOut (buffered ++ copyLoop later)).drop readAhead }

/-- that `BufReader` holds 8 KiB: of a service that writes `early` bytes in one go with its reply
    (`replyLen` bytes incl. the NUL), this many were read ahead -/
def readAheadOf (replyLen early : Nat) : Nat := min early (8192 - replyLen)

/-- **history (C18-F11, fixed by 847b000)**: a service that speaks first — a greeting written
    together with the reply to the upgrading call — lost what the old bridge had read ahead, up to
    8192 minus the reply's length; the current hand-over delivers it -/
theorem C18_history_read_ahead_before_847b000 :
    let svcOut : Bytes → Bytes := fun b => [103, 103, 103] ++ b.map (· + 1)
    upgradedPumpBefore847b000 svcOut [] [[97]] (readAheadOf 27 3) = { toService := [97], toClient := [98] } ∧
    (readAheadOf 27 20000 = 8165) ∧
    (upgradedPump svcOut [] [[97]]).toClient = [103, 103, 103, 98] := by
  decide

/-- **C18 upgrade hands over every byte**: for every read schedule of the client's stream,
    when the bridge leaves the request loop for the byte pump, the upgraded service receives
    exactly the stream after the upgrading request — every byte, in order, once — and the
    client receives the service's output for it. -/
theorem C18_upgrade_hands_over_all (w : World) (dec : Bytes → Frame) (reads : List Bytes) (hne : NoEmpty reads)
    (svcOut : Bytes → Bytes) (a : String) (i : Option String)
    (hu : (bridge w dec reads).status = .upgraded a i) :
    let b := bridge w dec reads
    let after := afterFrames (run w {} (clientFrames dec reads.flatten)).consumed reads.flatten
    (upgradedPump svcOut b.buffered b.rest).toService = after ∧
    (upgradedPump svcOut b.buffered b.rest).toClient = svcOut after := by
  have s := bridge_spec w dec reads hne
  obtain ⟨_, _, st, u⟩ := s
  rw [st] at hu
  have := u a i hu
  simp only [upgradedPump, copyLoop_eq_flatten]
  rw [this]
  exact ⟨rfl, rfl⟩

/-- **C18 direct pump**: in direct mode (`--connect`, `--activate`, `--bridge`) the service
    receives exactly the client's byte stream and the client receives exactly the service's
    byte stream — the *whole* output for the *whole* input, also when the client's stream
    ends first: `clientReads` is the client's stream up to its end, which is passed on as a
    half-close (aebf686), and `svcOut` of it is everything the service writes until it
    closes — whatever the chunking of the two copy loops.  No exception for a client that
    closes right after its last request remains. -/
theorem C18_direct_pump (svcOut : Bytes → Bytes) (clientReads : List Bytes) (svcSched : Bytes → List Bytes)
    (hsched : ∀ b, (svcSched b).flatten = b) :
    directMode svcOut clientReads svcSched =
      { toService := clientReads.flatten, toClient := svcOut clientReads.flatten } := by
  simp [directMode, copyLoop_eq_flatten, hsched]

/-- **C18 direct mode is transparent for a varlink service**: the service behind the
    pump reads the client's bytes under the pump's segmentation instead of the
    client's; by chunking invariance (C02) its replies and its final status are the
    same as on a direct connection -/
theorem C18_direct_mode_transparent (c : Consts) (svc : Service) (dec : Bytes → Frame)
    (direct pumped : List Bytes) (h1 : NoEmpty direct) (h2 : NoEmpty pumped)
    (he : direct.flatten = copyLoop pumped) :
    (handle c svc dec direct).groups = (handle c svc dec pumped).groups ∧
    (handle c svc dec direct).status = (handle c svc dec pumped).status := by
  have := C02_chunking_invariance c svc dec direct pumped h1 h2 (by rw [he, copyLoop_eq_flatten])
  exact ⟨this.1, this.2.1⟩

end VV
