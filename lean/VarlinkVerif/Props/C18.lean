/-
C18 — the CLI bridge is transparent.

`Proxy.run` is `proxy::handle` (resolver mode) at frame level, `Proxy.directMode`
is `proxy::handle_connect`, `Proxy.idealRun` is the specification: what the client
observes when it talks to the services directly (Lemmas/Proxy.lean).

The full statement — for every world and every request list
`(run w {} fs).groups = idealRun w resolverAddr 0 [] rs ∧ status = eof` — is false
for the code as it is.  `C18_transparent_partial` proves it under explicit
hypotheses; every `_counterexample` drops one of them and exhibits a concrete
witness (replayed on the real binary by the `proxy` suite, harness/corpus/proxy.txt).
Process behaviour (epoll close watching, thread shutdown order, exit status) is
observed by the suite, not proved.
-/
import VarlinkVerif.Lemmas.Proxy
import VarlinkVerif.Props.C02

namespace VV
open Proxy

/-- the full statement of transparency for one world, resolver address and request list -/
def Transparent (w : World) (resolverAddr : String) (rs : List Request) : Prop :=
  (run w {} (rs.map .req)).groups = idealRun w resolverAddr 0 [] rs ∧
  (run w {} (rs.map .req)).status = .eof

instance (w : World) (ra : String) (rs : List Request) : Decidable (Transparent w ra rs) := by
  unfold Transparent; infer_instance

/-- **C18 transparency (partial)**: if the resolver's answers do not change, the
    configured resolver address is the one the bridge has compiled in, and every
    request (after `GetInfo` has been redirected to the resolver) has a method
    with a dot, well-typed parameters when it is `GetInterfaceDescription`, a
    non-empty interface that resolves to an address that connects, no `upgrade`
    flag, and is answered by its service with `continues`* + one final reply (or
    not at all when oneway) on a connection the service keeps open — then the
    bridged session is the direct one: every request is forwarded unchanged to the
    service it resolves to, exactly that service's replies come back in order, the
    bridge is still serving at the end; and for every service the requests it
    receives and the replies the client sees for them are those of one direct
    connection (`serve`) carrying just these requests. -/
theorem C18_transparent_partial (w : World) (rs : List Request) (hs : StaticResolver w)
    (hg : ∀ r ∈ rs, Good w r) :
    Transparent w fixedResolverAddr rs ∧
    (run w {} (rs.map .req)).consumed = rs.length ∧
    (run w {} (rs.map .req)).groups = rs.map (expectedGroup w) ∧
    (run w {} (rs.map .req)).sent = rs.filterMap (fun r => (addrOf w r).map fun a => (a, rewrite r)) ∧
    ∀ a svc, w.svcAt a = some svc →
      let mine := rs.filter (fun r => addrOf w r == some a)
      (serve w.consts svc (mine.map fun r => .req (rewrite r))).status = .eof ∧
      (serve w.consts svc (mine.map fun r => .req (rewrite r))).groups = mine.map (expectedGroup w) := by
  have hrun := run_good w hs rs {} (Or.inl rfl) hg
  obtain ⟨h1, h2, h3, h4⟩ := hrun
  refine ⟨⟨?_, h1⟩, h2, h3, h4, ?_⟩
  · rw [h3, idealRun_good w hs rs 0 hg]
  · intro a svc hsvc mine
    have hmine : ∀ r ∈ mine, Good w r ∧ addrOf w r = some a := by
      intro r hr
      have := List.mem_filter.1 hr
      exact ⟨hg r this.1, by simpa using this.2⟩
    have hall : ∀ r ∈ mine.map rewrite,
        (callOne w.consts svc r).ok = true ∧ (callOne w.consts svc r).upgraded = none := by
      intro r hr
      obtain ⟨r0, hr0, rfl⟩ := List.mem_map.1 hr
      obtain ⟨⟨i, a', svc', hsel, _, hres, hsvc', _, hok, hnu, _⟩, ha⟩ := hmine r0 hr0
      have ht := target_of_good hsel hres hsvc'
      have : a' = a := by simpa [addrOf, ht] using ha
      subst this
      rw [hsvc] at hsvc'
      cases hsvc'
      exact ⟨hok, hnu⟩
    have hsv := serve_all_ok w.consts svc (mine.map rewrite) hall
    simp only [List.map_map] at hsv
    refine ⟨hsv.1, ?_⟩
    rw [show (mine.map fun r => Frame.req (rewrite r)) = mine.map (Frame.req ∘ rewrite) from rfl, hsv.2]
    apply List.map_congr_left
    intro r0 hr0
    obtain ⟨⟨i, a', svc', hsel, _, hres, hsvc', _, _, _, _⟩, ha⟩ := hmine r0 hr0
    have ht := target_of_good hsel hres hsvc'
    have : a' = a := by simpa [addrOf, ht] using ha
    subst this
    rw [hsvc] at hsvc'
    cases hsvc'
    simp [expectedGroup, ht]

/-! ### concrete worlds for non-vacuity and the counterexamples -/

def exReply (s : String) : Reply := Reply.params (some (.str s))

/-- a service `a.b`: `Abort` replies and then fails (the connection is closed),
    `Quiet` never replies, `More` streams, everything else replies once -/
def exSvc (tag : String) : Service :=
  { vendor := "v", product := "p", version := "1", url := "u",
    ifaces := [{ name := "a.b", desc := "d",
                 script := fun r =>
                   if r.method == "a.b.Abort" then [.reply (exReply tag), .fail]
                   else if r.method == "a.b.Quiet" then []
                   else if r.method == "a.b.More" then
                     [.setContinues true, .reply (exReply "1"), .setContinues false, .reply (exReply tag)]
                   else [.reply (exReply tag)] }] }

def exResolverSvc : Service :=
  { vendor := "r", product := "r", version := "1", url := "u",
    ifaces := [{ name := "org.varlink.resolver", desc := "d", script := fun _ => [.reply (exReply "resolver-info")] }] }

def exWorld (hup : Bool) : World :=
  { consts := { serviceDesc := "" },
    resolve := fun _ i => if i == "a.b" then some "A" else if i == "dead.x" then some "D" else none,
    svcAt := fun a => if a == "A" then some (exSvc "A")
                      else if a == fixedResolverAddr then some exResolverSvc else none,
    hupWins := fun _ => hup }

def rq (m : String) : Request := { method := m }

/-- non-vacuity of `C18_transparent_partial`: a session that switches targets, streams,
    sends a oneway call, asks for service info and for an interface description -/
example :
    let w := exWorld false
    let rs := [rq "a.b.M", rq "org.varlink.service.GetInfo", { rq "a.b.More" with more := some true },
               { rq "a.b.M" with oneway := some true },
               { rq "org.varlink.service.GetInterfaceDescription" with
                 parameters := some (.obj [("interface", .str "a.b")]) }, rq "a.b.M"]
    (run w {} (rs.map .req)).groups =
      [[exReply "A"], [exReply "resolver-info"], [{ exReply "1" with continues := some true }, exReply "A"], [],
       [Reply.params (some (.obj [("description", .str "d")]))], [exReply "A"]] ∧
    (run w {} (rs.map .req)).status = .eof ∧
    (run w {} (rs.map .req)).groups = idealRun w fixedResolverAddr 0 [] rs := by
  decide +kernel

/-- the hypotheses of `C18_transparent_partial` are met by concrete calls: a plain call, a
    streaming call, a oneway call and the redirected `GetInfo` -/
example :
    Good (exWorld false) (rq "a.b.M") ∧ Good (exWorld false) { rq "a.b.More" with more := some true } ∧
    Good (exWorld false) { rq "a.b.M" with oneway := some true } ∧
    Good (exWorld false) (rq "org.varlink.service.GetInfo") ∧ StaticResolver (exWorld false) := by
  refine ⟨⟨"a.b", "A", exSvc "A", ?_, ?_, ?_, rfl, ?_⟩, ⟨"a.b", "A", exSvc "A", ?_, ?_, ?_, rfl, ?_⟩,
    ⟨"a.b", "A", exSvc "A", ?_, ?_, ?_, rfl, ?_⟩,
    ⟨"org.varlink.resolver", fixedResolverAddr, exResolverSvc, ?_, ?_, ?_, rfl, ?_⟩, fun _ _ _ => rfl⟩
  all_goals first
    | (unfold Final; decide +kernel)
    | decide +kernel

/-- **dropped hypothesis: the interface resolves** — after an unknown interface the
    bridge *returns* (exit status 0) instead of continuing: the next request is never read -/
theorem C18_unknown_interface_counterexample :
    let w := exWorld false
    let rs := [rq "no.such.M", rq "a.b.M"]
    (run w {} (rs.map .req)).groups = [[errInterfaceNotFound "no.such"]] ∧
    (run w {} (rs.map .req)).status = .stopped ∧
    idealRun w fixedResolverAddr 0 [] rs = [[errInterfaceNotFound "no.such"], [exReply "A"]] ∧
    ¬ Transparent w fixedResolverAddr rs := by
  decide +kernel

/-- **dropped hypothesis: the method has a dot** -/
theorem C18_no_dot_counterexample :
    let w := exWorld false
    let rs := [rq "nodot", rq "a.b.M"]
    (run w {} (rs.map .req)).groups = [[errInterfaceNotFound "nodot"]] ∧
    (run w {} (rs.map .req)).status = .stopped ∧
    ¬ Transparent w fixedResolverAddr rs := by
  decide +kernel

/-- **dropped hypothesis: the resolved address connects** -/
theorem C18_connect_failure_counterexample :
    let w := exWorld false
    let rs := [rq "dead.x.M", rq "a.b.M"]
    (run w {} (rs.map .req)).groups = [[errInterfaceNotFound "dead.x"]] ∧
    (run w {} (rs.map .req)).status = .stopped ∧
    ¬ Transparent w fixedResolverAddr rs := by
  decide +kernel

/-- **dropped hypothesis: GetInterfaceDescription carries parameters** — the bridge
    exits with an error and writes nothing; a service answers
    `InvalidParameter(parameters)` and goes on -/
theorem C18_description_without_parameters_counterexample :
    let w := exWorld false
    let rs := [rq "org.varlink.service.GetInterfaceDescription", rq "a.b.M"]
    (run w {} (rs.map .req)).groups = [[]] ∧
    (run w {} (rs.map .req)).status = .error ∧
    idealRun w fixedResolverAddr 0 [] rs = [[errInvalidParameter "parameters"], [exReply "A"]] ∧
    ¬ Transparent w fixedResolverAddr rs := by
  decide +kernel

/-- **dropped hypothesis: the configured resolver is at the compiled-in address** —
    with `--resolver R` the service-info query still goes to
    `unix:/run/org.varlink.resolver` -/
theorem C18_getinfo_fixed_address_counterexample :
    let w : World := { exWorld false with
      svcAt := fun a => if a == "A" then some (exSvc "A") else if a == "R" then some exResolverSvc else none }
    let rs := [rq "org.varlink.service.GetInfo", rq "a.b.M"]
    (run w {} (rs.map .req)).groups = [[errInterfaceNotFound "org.varlink.resolver"]] ∧
    (run w {} (rs.map .req)).status = .stopped ∧
    idealRun w "R" 0 [] rs = [[exReply "resolver-info"], [exReply "A"]] ∧
    ¬ Transparent w "R" rs := by
  decide +kernel

/-- **dropped hypothesis: the resolver's answers do not change** — the `last_iface`
    cache keeps the old address for consecutive requests to the same interface -/
theorem C18_stale_cache_counterexample :
    let w : World := { exWorld false with
      resolve := fun k i => if i == "a.b" then some (if k == 0 then "A" else "B") else none,
      svcAt := fun a => if a == "A" then some (exSvc "A") else if a == "B" then some (exSvc "B") else none }
    let rs := [rq "a.b.M", rq "a.b.M"]
    (run w {} (rs.map .req)).groups = [[exReply "A"], [exReply "A"]] ∧
    (run w {} (rs.map .req)).sent.map (·.1) = ["A", "A"] ∧
    idealRun w fixedResolverAddr 0 [] rs = [[exReply "A"], [exReply "B"]] ∧
    ¬ Transparent w fixedResolverAddr rs := by
  decide +kernel

/-- **dropped hypothesis: the service keeps the connection open (no per-connection
    state)** — directly, a service that closes the connection answers nothing
    afterwards; through the bridge every request gets a fresh connection -/
theorem C18_connection_state_counterexample :
    let w := exWorld false
    let rs := [rq "a.b.Abort", rq "a.b.M"]
    (run w {} (rs.map .req)).groups = [[exReply "A"], [exReply "A"]] ∧
    idealRun w fixedResolverAddr 0 [] rs = [[exReply "A"], []] ∧
    ¬ Transparent w fixedResolverAddr rs := by
  decide +kernel

/-- **same hypothesis, the race lost**: when the hang-up is seen together with the
    reply the service wrote before closing, the reply is not forwarded and the
    bridge exits with an error -/
theorem C18_reply_before_close_lost_counterexample :
    let w := exWorld true
    let rs := [rq "a.b.Abort"]
    (run w {} (rs.map .req)).groups = [[]] ∧
    (run w {} (rs.map .req)).status = .error ∧
    idealRun w fixedResolverAddr 0 [] rs = [[exReply "A"]] ∧
    ¬ Transparent w fixedResolverAddr rs := by
  decide +kernel

/-- **dropped hypothesis: the service answers every call** — the bridge waits for a
    reply that never comes while a direct client's next request is served -/
theorem C18_unanswered_call_counterexample :
    let w := exWorld false
    let rs := [rq "a.b.Quiet", rq "a.b.M"]
    (run w {} (rs.map .req)).groups = [[]] ∧
    (run w {} (rs.map .req)).status = .hang ∧
    idealRun w fixedResolverAddr 0 [] rs = [[], [exReply "A"]] ∧
    ¬ Transparent w fixedResolverAddr rs := by
  decide +kernel

/-- **dropped hypothesis: the interface name is not empty** — the cache starts
    with the empty name, so a method `.M` is never resolved -/
theorem C18_empty_interface_counterexample :
    let w : World := { exWorld false with
      resolve := fun _ i => if i == "" then some "A" else none }
    let rs := [rq ".M"]
    (run w {} (rs.map .req)).groups = [[errInterfaceNotFound ""]] ∧
    (run w {} (rs.map .req)).status = .stopped ∧
    idealRun w fixedResolverAddr 0 [] rs = [[errInterfaceNotFound ""]] ∧
    ¬ Transparent w fixedResolverAddr rs := by
  decide +kernel

/-- **C18 what the proposed patches achieve** (about `Model.ProxyFixed`, the router with
    work/proposed/c18-continue-after-interface-not-found.diff,
    c18-getdesc-without-parameters.diff and c18-getinfo-configured-resolver.diff applied;
    a hypothetical model, not tied by ./check): for *any* configured resolver address and
    without any hypothesis on dots, resolution or reachability, the patched router is
    transparent — unknown interfaces, unreachable addresses, methods without a dot and
    parameterless GetInterfaceDescription are answered like the specification says and the
    session goes on.  What remains: a static resolver, non-empty interface names,
    well-typed GetInterfaceDescription parameters, no upgrade flag, and services that
    answer properly on a connection they keep open. -/
theorem C18_transparent_after_patches (w : World) (ra : String) (rs : List Request)
    (hs : StaticResolver w) (hg : ∀ r ∈ rs, GoodFixed w ra r) :
    (runFixed w ra {} (rs.map .req)).groups = idealRun w ra 0 [] rs ∧
    (runFixed w ra {} (rs.map .req)).status = .eof := by
  have := runFixed_good w hs ra rs {} 0 (Or.inl rfl) hg
  exact ⟨this.2, this.1⟩

/-- non-vacuity: the witnesses of four counterexamples above in one session, through the patched router -/
example :
    let w : World := { exWorld false with
      svcAt := fun a => if a == "A" then some (exSvc "A") else if a == "R" then some exResolverSvc else none }
    let rs := [rq "no.such.M", rq "nodot", rq "dead.x.M", rq "org.varlink.service.GetInterfaceDescription",
               rq "org.varlink.service.GetInfo", rq "a.b.M"]
    (runFixed w "R" {} (rs.map .req)).groups =
      [[errInterfaceNotFound "no.such"], [errInterfaceNotFound "nodot"], [errInterfaceNotFound "dead.x"],
       [errInvalidParameter "parameters"], [exReply "resolver-info"], [exReply "A"]] ∧
    (runFixed w "R" {} (rs.map .req)).groups = idealRun w "R" 0 [] rs ∧
    (runFixed w "R" {} (rs.map .req)).status = .eof := by
  decide +kernel

/-! ### byte level: the client's stream under any segmentation -/

/-- **C18 the bridge's reading is chunking invariant**: `bridge` reads the client's
    descriptor through a `BufReader`; for every read schedule of the same byte stream
    it forwards the same requests and writes the same replies as `run` on the decoded
    frames of the stream, and when a request hands over to the byte pump, what the
    `BufReader` still holds plus what the descriptor has not delivered yet is exactly
    the stream after that request — so every later byte is either forwarded by the
    pump or is one of the `buffered` bytes of `upgradedPump`. -/
theorem C18_bridge_chunking_invariance (w : World) (dec : Bytes → Frame) (r1 r2 : List Bytes)
    (h1 : NoEmpty r1) (h2 : NoEmpty r2) (he : r1.flatten = r2.flatten) :
    (bridge w dec r1).groups = (bridge w dec r2).groups ∧
    (bridge w dec r1).sent = (bridge w dec r2).sent ∧
    (bridge w dec r1).status = (bridge w dec r2).status ∧
    (bridge w dec r1).groups = (run w {} (clientFrames dec r1.flatten)).groups ∧
    (∀ a i, (bridge w dec r1).status = .upgraded a i →
      (bridge w dec r1).buffered ++ (bridge w dec r1).rest.flatten =
      (bridge w dec r2).buffered ++ (bridge w dec r2).rest.flatten) := by
  have s1 := bridge_spec w dec r1 h1
  have s2 := bridge_spec w dec r2 h2
  simp only [he] at s1
  simp only at s2
  obtain ⟨g1, n1, t1, u1⟩ := s1
  obtain ⟨g2, n2, t2, u2⟩ := s2
  refine ⟨by rw [g1, g2], by rw [n1, n2], by rw [t1, t2], by rw [g1, he], ?_⟩
  intro a i hu
  rw [t1] at hu
  rw [u1 a i hu, u2 a i hu]

/-- a quirk the byte-level model mirrors (proxy.rs 47 `buf.pop()` is unconditional): a last
    message that lacks its NUL but carries one extra byte is executed when the client closes,
    whereas a service reading the same bytes directly treats it as incomplete -/
example :
    let w := exWorld false
    let dec : Bytes → Frame := fun m => if m = [1, 2] then .req (rq "a.b.M") else .bad
    (bridge w dec [[1, 2, 9]]).groups = [[exReply "A"]] ∧ (bridge w dec [[1, 2, 9]]).status = .eof ∧
    (handle w.consts (exSvc "A") dec [[1, 2, 9]]).groups = [] := by
  decide +kernel

/-! ### upgraded sessions and direct mode: byte pumps -/

/-- **C18 upgraded hand-over (partial)**: when the client sends nothing before it
    has the reply to the upgrading call (nothing is buffered), the pump is
    transparent for any payload and any chunking -/
theorem C18_upgraded_pump_partial (svcOut : Bytes → Bytes) (later : List Bytes) :
    upgradedPump svcOut [] later = idealPump svcOut [] later ∧
    (upgradedPump svcOut [] later).toService = later.flatten ∧
    (upgradedPump svcOut [] later).toClient = svcOut later.flatten := by
  have h : (if svcOut later.flatten = [] then lineFlushed [] else [] ++ svcOut later.flatten) = svcOut later.flatten := by
    by_cases e : svcOut later.flatten = []
    · simp [e, lineFlushed]
    · simp [e]
  simp only [upgradedPump, idealPump, copyLoop_eq_flatten, List.nil_append] at h ⊢
  rw [h]
  simp

/-- **dropped hypothesis: nothing is buffered** — bytes the client pipelined behind
    the upgrading request are written back to the client and never reach the service -/
theorem C18_upgrade_buffer_counterexample :
    let svcOut : Bytes → Bytes := fun b => b.map (· + 1)
    upgradedPump svcOut [97, 98] [[99]] = { toService := [99], toClient := [97, 98, 100] } ∧
    idealPump svcOut [97, 98] [[99]] = { toService := [97, 98, 99], toClient := [98, 99, 100] } ∧
    upgradedPump svcOut [97, 98] [[99]] ≠ idealPump svcOut [97, 98] [[99]] ∧
    -- everything pipelined, nothing later: the service sees nothing, the client gets its own
    -- bytes back up to the last newline
    upgradedPump svcOut [97, 10, 98] [] = { toService := [], toClient := [97, 10] } ∧
    idealPump svcOut [97, 10, 98] [] = { toService := [97, 10, 98], toClient := [98, 11, 99] } := by
  decide +kernel

/-- **C18 direct pump**: in direct mode (`--activate`, `--bridge`: a child exists)
    the service receives exactly the client's byte stream and the client receives
    exactly the service's byte stream, whatever the chunking of the two copy loops -/
theorem C18_direct_pump (svcOut : Bytes → Bytes) (clientReads : List Bytes) (svcSched : Bytes → List Bytes)
    (hsched : ∀ b, (svcSched b).flatten = b) :
    directMode true svcOut clientReads svcSched =
      .pumped { toService := clientReads.flatten, toClient := svcOut clientReads.flatten } := by
  simp [directMode, copyLoop_eq_flatten, hsched]

/-- **C18 direct mode is transparent for a varlink service**: the service behind the
    pump reads the client's bytes under the pump's segmentation instead of the
    client's; by chunking invariance (C02) its replies and its final status are the
    same as on a direct connection -/
theorem C18_direct_mode_transparent (c : Consts) (svc : Service) (dec : Bytes → Frame)
    (direct pumped : List Bytes) (h1 : NoEmpty direct) (h2 : NoEmpty pumped)
    (he : direct.flatten = copyLoop pumped) :
    (handle c svc dec direct).groups = (handle c svc dec pumped).groups ∧
    (handle c svc dec direct).status = (handle c svc dec pumped).status := by
  have := C02_chunking_invariance c svc dec direct pumped h1 h2 (by rw [he, copyLoop_eq_flatten])
  exact ⟨this.1, this.2.1⟩

/-- **dropped hypothesis: a child process exists** — `--connect ADDRESS` has no
    child; `conn.child.take().unwrap()` panics -/
theorem C18_connect_mode_counterexample (svcOut : Bytes → Bytes) (clientReads : List Bytes)
    (svcSched : Bytes → List Bytes) :
    directMode false svcOut clientReads svcSched = .panicked := by
  simp [directMode]

end VV
