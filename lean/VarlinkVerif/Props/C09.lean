/-
C09 — the generator is total and its output compiles.

What a Lean model can say: `Model.GenEmit.emit` is the compile-relevant skeleton of what
`varlink_to_rust` emits.  The theorem below is about that skeleton, for ALL interface
definitions; that the skeleton conditions suffice for rustc to accept the emitted text is
validated by rustc on the definitions of every correspondence run, not proved
(**partial by nature**).

It is also **partial by guard**: the full statement of the property ("every definition
whose references resolve, whose types are finitely sized and whose sibling names are
distinct") is false for the generator as it is.  `Safe` (= `safeB`, ten decidable
components S1-S10 in `Model/GenEmit.lean`) is the explicit guard; every component has a
`_counterexample` theorem on a concrete definition that satisfies all hypotheses of the
property, and that definition is run on the real generator + rustc in every check
(harness/corpus/gen.txt and the built-in witnesses).
-/
import VarlinkVerif.Model.GenEmit
import VarlinkVerif.Lemmas.GenEmit
import VarlinkVerif.Lemmas.GenPaths

namespace VV
open Gen

/-- `Resolved`, `Finite`, `SiblingDistinct` with grammar-admitted names: the hypotheses of the property -/
def WellFormed (i : IDL) : Prop :=
  wfNamesB i = true ∧ resolvedB i = true ∧ finiteB i = true ∧ siblingDistinctB i = true

instance (i : IDL) : Decidable (WellFormed i) := by unfold WellFormed; infer_instance

/-- For every interface definition that is well formed **and Safe**: `emit` constructs no
    panicking identifier, no `fn` name / `ErrorKind` variant is a reserved word, no module item is
    emitted twice or collides with an import, no trait gets two fns of one name, the unboxed type
    graph has no cycle, no `reply_<error>` helper is ambiguous with a `CallTrait` method in use,
    nothing the emitted code relies on is shadowed, the variant-name lint does not fire — and the
    model's verdict is "compiles".  (`Safe`'s S7 subsumes `Finite`, and the name grammar is not
    needed by the proof; both are kept because they are hypotheses of the property.) -/
theorem C09_total_and_clash_free_partial (i : IDL) (hwf : WellFormed i) (hsafe : safeB i = true) :
    (emit i).noPanic = true ∧ (emit i).noKeyword = true ∧ (emit i).itemsDistinct = true ∧
    (emit i).fnsDistinct = true ∧ (emit i).noCycle = true ∧ (emit i).noAmbiguity = true ∧
    (emit i).noShadow = true ∧ (emit i).noLint = true ∧ verdict i = .ok := by
  obtain ⟨_, hres, _, hsib⟩ := hwf
  obtain ⟨s1, s2, s3, s4, s5, s6, s7, s8, s9, s10⟩ := safeB_spec hsafe
  have c1 := emit_noPanic i s1
  have c2 := emit_noKeyword i s2
  have c3 := emit_itemsDistinct i s4 s5 s6
  have c4 := emit_fnsDistinct i s3
  have c5 := emit_noCycle i s7
  have c6 := emit_noAmbiguity i s8
  have c7 := emit_noShadow i s4 s5 s9
  have c8 := emit_noLint i s10
  have hs : (i.allSiblings.all fun l => !(hasDup l)) = true := by
    simp only [siblingDistinctB, Bool.and_eq_true] at hsib
    exact hsib.2
  refine ⟨c1, c2, c3, c4, c5, c6, c7, c8, ?_⟩
  simp [verdict, c1, c2, c3, c4, c5, c6, c7, c8, hs, hres]

/-- `Finite`, the property's own hypothesis (no type contains itself through plain members), follows from
    the guard's S7 (none through plain **or optional** members) for every definition: the gap between
    the two is exactly the class `opt-cycle` (`C09_opt_cycle_counterexample`) -/
theorem C09_safe_implies_finite (i : IDL) (hsafe : safeB i = true) : finiteB i = true :=
  finite_of_safeOptCycle i (safeB_spec hsafe).2.2.2.2.2.2.1

/-- The guard is not stronger than necessary: for every definition (whose typedefs are structs or
    enums, as the grammar has it) `Safe` holds **iff** the skeleton is clean — each of the ten components
    is also *necessary*: an unrawable name does reach a panicking identifier constructor, a reserved
    snake-case name does become a `fn`, an anonymous error-parameter type is emitted twice, … -/
theorem C09_safe_is_exactly_clean (i : IDL) (hdefs : typedefsAreDefs i = true) :
    safeB i = true ↔ (emit i).clean = true :=
  safeB_iff_clean i hdefs

/-- hence, on well-formed definitions, the model predicts "compiles" exactly for the Safe ones -/
theorem C09_verdict_ok_iff_safe (i : IDL) (hwf : WellFormed i) (hdefs : typedefsAreDefs i = true) :
    verdict i = .ok ↔ safeB i = true := by
  obtain ⟨_, hres, _, hsib⟩ := hwf
  have hs : (i.allSiblings.all fun l => !(hasDup l)) = true := by
    simp only [siblingDistinctB, Bool.and_eq_true] at hsib
    exact hsib.2
  rw [safeB_iff_clean i hdefs]
  simp only [verdict, Emission.clean, hs, hres, Bool.and_eq_true]
  constructor
  · intro h
    repeat' split at h
    all_goals simp_all
  · intro h
    obtain ⟨⟨⟨⟨⟨⟨⟨c1, c2⟩, c3⟩, c4⟩, c5⟩, c6⟩, c7⟩, c8⟩ := h
    simp [c1, c2, c3, c4, c5, c6, c7, c8]

/-- **What class S6 (`path-dup`) consists of**: for every well-formed definition, if no member is named
    `Call` and no field or variant name contains `_`, the names the generator derives by joining with
    `_` (`T_a_b`, `Foo_Args_x`, `Foo_Args`, `Foo_Reply`, `Call_Foo`) are pairwise distinct.  So S6 can only
    fail through an underscore in a field name (`a_b` against `a`→`b`) or a member named `Call`
    (`Call_Args`, `Call_<field>`): joining is injective on `_`-free components (`joinUS_inj`). -/
theorem C09_path_dup_needs_underscore_or_Call (i : IDL) (hwf : WellFormed i)
    (hcall : "Call" ∉ i.memberNames) (hplain : ∀ f ∈ i.fieldNames, '_' ∉ f.toList) : safePaths i = true :=
  safePaths_of_plain_names i hwf.1 hwf.2.2.2 hcall hplain

example :
    let i : IDL := { name := "org.example.p", types := [("T", .struct [("a", .struct [("b", .enum ["x", "y"])]), ("ab", .opt (.struct []))])],
                     methods := [⟨"Args", [("t", .arr (.struct [("u", .int)]))], [("t", .ref "T")]⟩, ⟨"Reply", [], []⟩], errors := [⟨"Gone", []⟩] }
    WellFormed i ∧ "Call" ∉ i.memberNames ∧ (∀ f ∈ i.fieldNames, '_' ∉ f.toList) ∧ safePaths i = true := by
  decide

/-- non-vacuity: a definition with every type constructor, anonymous types, keyword-like field and
    variant names, recursion through an array, methods and errors satisfies every hypothesis -/
def exampleSafe : IDL :=
  { name := "org.example.ok",
    types := [("Kind", .enum ["type", "match"]),
              ("Tree", .struct [("kids", .arr (.ref "Tree")), ("kind", .opt (.ref "Kind")),
                                ("meta", .map (.struct [("fn", .int), ("x_1", .enum ["a", "b"])])),
                                ("tags", .map (.struct []))])],
    methods := [⟨"GetID", [("async", .ref "Tree"), ("o", .object)], [("loop", .opt (.arr .float))]⟩,
                ⟨"Union", [], []⟩],
    errors := [⟨"NotFound", [("why", .opt .string), ("s", .map (.struct []))]⟩] }

example : WellFormed exampleSafe ∧ safeB exampleSafe = true ∧ typedefsAreDefs exampleSafe = true := by decide

/-! ### the excluded classes: for each, a well-formed definition on which the unguarded statement fails -/

def idl (types : List (String × Ty)) (methods : List Method) (errors : List ErrorDef) : IDL :=
  { name := "org.example.w", types, methods, errors }

/-- S1 `raw-ident`: `method Foo(self: int) -> ()` — the generator panics -/
theorem C09_raw_ident_counterexample :
    let i := idl [] [⟨"Foo", [("self", .int)], []⟩] []
    WellFormed i ∧ failedClasses i = ["raw-ident"] ∧ verdict i = .panic := by decide

/-- S1 again: `type Self (a: int)` (`format_ident!("r#Self")`) -/
theorem C09_raw_ident_type_counterexample :
    let i := idl [("Self", .struct [("a", .int)])] [⟨"Foo", [], []⟩] []
    WellFormed i ∧ failedClasses i = ["raw-ident"] ∧ verdict i = .panic := by decide

/-- S2 `kw-fn`: `method Type() -> ()` — `fn type` -/
theorem C09_kw_fn_counterexample :
    let i := idl [] [⟨"Type", [], []⟩] []
    WellFormed i ∧ failedClasses i = ["kw-fn"] ∧ verdict i = .rustcFail "syntax" := by decide

/-- S3 `snake-dup`: `GetID` and `GetId` are both `get_id` -/
theorem C09_snake_dup_counterexample :
    let i := idl [] [⟨"GetID", [], []⟩, ⟨"GetId", [], []⟩] []
    WellFormed i ∧ failedClasses i = ["snake-dup"] ∧ verdict i = .rustcFail "dup" := by decide

/-- S4 `err-anon-dup`: `error Bad (reason: (a, b))` — `Bad_Args_reason` is emitted twice -/
theorem C09_err_anon_dup_counterexample :
    let i := idl [] [⟨"Foo", [], []⟩] [⟨"Bad", [("reason", .enum ["a", "b"])]⟩]
    WellFormed i ∧ failedClasses i = ["err-anon-dup"] ∧ verdict i = .rustcFail "dup" ∧
    ((emit i).itemNames.count "Bad_Args_reason" = 2) := by decide

/-- S5 `reserved-type`: `type Error (a: int)` -/
theorem C09_reserved_type_counterexample :
    let i := idl [("Error", .struct [("a", .int)])] [⟨"Foo", [], []⟩] []
    WellFormed i ∧ failedClasses i = ["reserved-type"] ∧ verdict i = .rustcFail "dup" := by decide

/-- S5 again, the prelude half: `type Option (a, b)` shadows `Option<…>` -/
theorem C09_reserved_type_shadow_counterexample :
    let i := idl [("Option", .enum ["a", "b"])] [⟨"Foo", [], []⟩] []
    WellFormed i ∧ failedClasses i = ["reserved-type"] ∧ verdict i = .rustcFail "shadow" := by decide

/-- S6 `path-dup`: fields `a_b` and `a`→`b` both name `T_a_b` -/
theorem C09_path_dup_counterexample :
    let i := idl [("T", .struct [("a_b", .struct [("x", .int)]), ("a", .struct [("b", .struct [("y", .int)])])])]
                 [⟨"Foo", [("t", .ref "T")], []⟩] []
    WellFormed i ∧ failedClasses i = ["path-dup"] ∧ verdict i = .rustcFail "dup" := by decide

/-- S6 again: method `Call` beside method `Args` — struct `Call_Args` and trait `Call_Args` -/
theorem C09_path_dup_call_args_counterexample :
    let i := idl [] [⟨"Args", [], []⟩, ⟨"Call", [("a", .int)], [("b", .int)]⟩] []
    WellFormed i ∧ failedClasses i = ["path-dup"] ∧ verdict i = .rustcFail "dup" := by decide

/-- S7 `opt-cycle`: `type T (next: ?T)` is finite in the IDL's sense but `Option<T>` is not sized -/
theorem C09_opt_cycle_counterexample :
    let i := idl [("T", .struct [("next", .opt (.ref "T"))])] [⟨"Foo", [("t", .ref "T")], []⟩] []
    WellFormed i ∧ failedClasses i = ["opt-cycle"] ∧ verdict i = .rustcFail "infinite" := by decide

/-- S8 `err-fn-shadow`: `error MethodNotFound ()` — `reply_method_not_found` twice in scope -/
theorem C09_err_fn_shadow_counterexample :
    let i := idl [] [⟨"Foo", [], []⟩] [⟨"MethodNotFound", []⟩]
    WellFormed i ∧ failedClasses i = ["err-fn-shadow"] ∧ verdict i = .rustcFail "ambiguous" := by decide

/-- S9 `param-shadow`: `method Foo(Some: int) -> ()` — the parameter is the pattern `Some` -/
theorem C09_param_shadow_counterexample :
    let i := idl [] [⟨"Foo", [("Some", .int)], []⟩] []
    WellFormed i ∧ failedClasses i = ["param-shadow"] ∧ verdict i = .rustcFail "shadow" := by decide

/-- S10 `param-variant`: `error Oops (enum: State)` with `type State (name, enum, ref)` -/
theorem C09_param_variant_counterexample :
    let i := idl [("State", .enum ["name", "enum", "ref"])] [⟨"Foo", [], []⟩] [⟨"Oops", [("enum", .ref "State")]⟩]
    WellFormed i ∧ failedClasses i = ["param-variant"] ∧ verdict i = .rustcFail "lint" := by decide

/-! ### rejected texts -/

/-- all front-ends funnel through `generate_with_options` / `compile`: parse first, emit only on success -/
def generateWith (parse : String → Option IDL) (s : String) : Option Emission := (parse s).map emit

/-- for every parser and every text it rejects, generation fails and nothing is emitted -/
theorem C09_rejects_invalid (parse : String → Option IDL) (s : String) (h : parse s = none) :
    generateWith parse s = none := by
  simp [generateWith, h]

/-- and for every text it accepts, what is emitted is `emit` of the parsed definition -/
theorem C09_accepts_valid (parse : String → Option IDL) (s : String) (i : IDL) (h : parse s = some i) :
    generateWith parse s = some (emit i) := by
  simp [generateWith, h]

end VV
