/-
C14 — the worker pool respects its bound and never strands an accepted connection.

Quantifiers: every `initial`, every `max`, every interleaving (any list of
atomic steps of acceptor and workers, of any length — steps that are not
enabled are no-ops), any number of connections, connections of any duration
(`finish` is the environment's step).

The growth condition and the number of workers started by `ThreadPool::new`
come from Model.Extracted (regenerated from server.rs on every run); the two
lemmas `growCond_spec` and `initialWorkers_le` are the only places that look
inside them, so an edit of those expressions in the Rust source re-opens exactly
these obligations.
-/
import VarlinkVerif.Lemmas.Pool
import VarlinkVerif.Lemmas.PoolDrain

namespace VV

theorem growCond_spec (busy W max : Nat) :
    Extracted.growCond busy W max = true ↔ (W ≤ busy ∧ W < max) := by
  simp [Extracted.growCond]

theorem initialWorkers_le (initial max : Nat) : Extracted.initialWorkers initial max ≤ max := by
  simp only [Extracted.initialWorkers]; omega

/-- `ThreadPool::new` asserts `initial_worker > 0` -/
theorem initialWorkers_pos (initial max : Nat) (hi : 0 < initial) (hm : 0 < max) :
    0 < Extracted.initialWorkers initial max := by
  simp only [Extracted.initialWorkers]; omega

/-- the inductive invariant -/
structure PoolInv (s : PoolSt) : Prop where
  /-- the counter is exactly: jobs queued + jobs held by workers -/
  busy_eq : s.busy = Pool.queuedJobs s + heldCount s.workers
  /-- never more worker threads than `max` -/
  bound : s.workers.length ≤ s.max
  /-- outside `execute` there is a spare worker or the pool is at its maximum;
      inside `execute` (between send and growth check) the new job is counted -/
  spare : (s.acc = .accepting → s.busy + 1 ≤ s.workers.length ∨ s.max ≤ s.workers.length) ∧
          (s.acc = .sent → s.busy ≤ s.workers.length ∨ s.max ≤ s.workers.length)

theorem queuedJobs_append_job (q : List Msg) (j : Nat) :
    (List.filter Msg.isJob (q ++ [Msg.job j])).length = (List.filter Msg.isJob q).length + 1 := by
  rw [List.filter_append]
  simp [List.filter, Msg.isJob]

theorem queuedJobs_append_terms (q : List Msg) (n : Nat) :
    (List.filter Msg.isJob (q ++ List.replicate n Msg.terminate)).length =
    (List.filter Msg.isJob q).length := by
  induction n with
  | zero => simp
  | succ n ih =>
    rw [List.replicate_succ', ← List.append_assoc, List.filter_append]
    simp only [List.length_append]
    rw [ih]
    simp [Msg.isJob]

theorem init_inv (initial max : Nat) (hi : 0 < initial) : PoolInv (Pool.init initial max) := by
  refine ⟨?_, ?_, ?_, ?_⟩
  · simp [Pool.init, Pool.queuedJobs, heldCount, WPc.hasJob]
  · simpa [Pool.init] using initialWorkers_le initial max
  · intro _
    simp only [Pool.init, List.length_replicate]
    have := initialWorkers_le initial max
    by_cases hm : 0 < max
    · left; have := initialWorkers_pos initial max hi hm; omega
    · right; omega
  · intro h; simp [Pool.init] at h

theorem step_inv (s : PoolSt) (st : PStep) (h : PoolInv s) : PoolInv (Pool.step s st) := by
  unfold Pool.step
  by_cases hen : Pool.enabled s st = true
  case neg => simp [hen]; exact h
  simp only [hen, Bool.not_true, Bool.false_eq_true, if_false]
  obtain ⟨hb, hbound, hsp1, hsp2⟩ := h
  cases st with
  | enq =>
    have hacc : s.acc = .accepting := by simpa [Pool.enabled] using hen
    refine ⟨?_, hbound, ?_, ?_⟩
    · simp only [Pool.queuedJobs] at hb ⊢
      rw [queuedJobs_append_job]; omega
    · intro h; simp at h
    · intro _
      rcases hsp1 hacc with h | h
      · left; simpa using h
      · right; exact h
  | grow =>
    have hacc : s.acc = .sent := by simpa [Pool.enabled] using hen
    by_cases hg : Extracted.growCond s.busy s.workers.length s.max = true
    · have := (growCond_spec _ _ _).mp hg
      simp only [hg, if_true]
      refine ⟨?_, ?_, ?_, ?_⟩
      · simp only [Pool.queuedJobs, heldCount] at hb ⊢
        simp [List.filter_append, WPc.hasJob]; omega
      · simp; omega
      · intro _
        rcases hsp2 hacc with h | h
        · left; simp; omega
        · omega
      · intro h; simp at h
    · have hg' : Extracted.growCond s.busy s.workers.length s.max = false := by simpa using hg
      have hn : ¬ (s.workers.length ≤ s.busy ∧ s.workers.length < s.max) :=
        fun hh => hg ((growCond_spec _ _ _).mpr hh)
      simp only [hg', Bool.false_eq_true, if_false]
      refine ⟨hb, hbound, ?_, ?_⟩
      · intro _
        dsimp only
        by_cases h1 : s.workers.length ≤ s.busy
        · right; omega
        · left; omega
      · intro h; simp at h
  | deq =>
    simp only [Pool.enabled, Bool.and_eq_true] at hen
    obtain ⟨hidle, hq⟩ := hen
    cases hqq : s.queue with
    | nil => simp [hqq] at hq
    | cons m q =>
      have hidle_nojob : ∀ w, WPc.isIdle w = true → WPc.hasJob w = false := by
        intro w hw; cases w <;> simp [WPc.isIdle, WPc.hasJob] at *
      cases m with
      | job j =>
        simp only
        have hc := count_replaceFirst WPc.hasJob WPc.isIdle (.holding j) false hidle_nojob s.workers hidle
        simp [WPc.hasJob] at hc
        refine ⟨?_, ?_, ?_, ?_⟩
        · simp only [Pool.queuedJobs, heldCount, hqq] at hb ⊢
          have e : (List.filter Msg.isJob (Msg.job j :: q)).length = (List.filter Msg.isJob q).length + 1 := by
            simp [List.filter, Msg.isJob]
          rw [e] at hb
          omega
        · simpa [replaceFirst_length] using hbound
        · intro ha; simpa [replaceFirst_length] using hsp1 ha
        · intro ha; simpa [replaceFirst_length] using hsp2 ha
      | terminate =>
        simp only
        have hc := count_replaceFirst WPc.hasJob WPc.isIdle .terminated false hidle_nojob s.workers hidle
        simp [WPc.hasJob] at hc
        refine ⟨?_, ?_, ?_, ?_⟩
        · simp only [Pool.queuedJobs, heldCount, hqq] at hb ⊢
          have e : (List.filter Msg.isJob (Msg.terminate :: q)).length = (List.filter Msg.isJob q).length := by
            simp [List.filter, Msg.isJob]
          rw [e] at hb
          omega
        · simpa [replaceFirst_length] using hbound
        · intro ha; simpa [replaceFirst_length] using hsp1 ha
        · intro ha; simpa [replaceFirst_length] using hsp2 ha
  | start j =>
    have hany : s.workers.any (· == .holding j) = true := by simpa [Pool.enabled] using hen
    have hp : ∀ w, (w == WPc.holding j) = true → WPc.hasJob w = true := by
      intro w hw; simp at hw; subst hw; rfl
    have hc := count_replaceFirst WPc.hasJob (· == .holding j) (.running j) true hp s.workers hany
    simp [WPc.hasJob] at hc
    refine ⟨?_, ?_, ?_, ?_⟩
    · simp only [Pool.queuedJobs, heldCount] at hb ⊢; omega
    · simpa [replaceFirst_length] using hbound
    · intro ha; simpa [replaceFirst_length] using hsp1 ha
    · intro ha; simpa [replaceFirst_length] using hsp2 ha
  | finish j =>
    have hany : s.workers.any (· == .running j) = true := by simpa [Pool.enabled] using hen
    have hp : ∀ w, (w == WPc.running j) = true → WPc.hasJob w = true := by
      intro w hw; simp at hw; subst hw; rfl
    have hc := count_replaceFirst WPc.hasJob (· == .running j) (.done j) true hp s.workers hany
    simp [WPc.hasJob] at hc
    refine ⟨?_, ?_, ?_, ?_⟩
    · simp only [Pool.queuedJobs, heldCount] at hb ⊢; omega
    · simpa [replaceFirst_length] using hbound
    · intro ha; simpa [replaceFirst_length] using hsp1 ha
    · intro ha; simpa [replaceFirst_length] using hsp2 ha
  | dec j =>
    have hany : s.workers.any (· == .done j) = true := by simpa [Pool.enabled] using hen
    have hp : ∀ w, (w == WPc.done j) = true → WPc.hasJob w = true := by
      intro w hw; simp at hw; subst hw; rfl
    have hc := count_replaceFirst WPc.hasJob (· == .done j) .idle true hp s.workers hany
    simp [WPc.hasJob] at hc
    refine ⟨?_, ?_, ?_, ?_⟩
    · simp only [Pool.queuedJobs, heldCount] at hb ⊢; omega
    · simpa [replaceFirst_length] using hbound
    · intro ha
      rcases hsp1 ha with h | h
      · left; simp [replaceFirst_length]; omega
      · right; simpa [replaceFirst_length] using h
    · intro ha
      rcases hsp2 ha with h | h
      · left; simp [replaceFirst_length]; omega
      · right; simpa [replaceFirst_length] using h
  | idleGap => exact ⟨hb, hbound, hsp1, hsp2⟩
  | drop =>
    refine ⟨?_, hbound, ?_, ?_⟩
    · simp only [Pool.queuedJobs] at hb ⊢
      rw [queuedJobs_append_terms]; exact hb
    · intro h; simp at h
    · intro h; simp at h

theorem run_inv (steps : List PStep) : ∀ s, PoolInv s → PoolInv (Pool.run s steps) := by
  induction steps with
  | nil => intro s h; exact h
  | cons st rest ih => intro s h; exact ih _ (step_inv s st h)

theorem step_max (s : PoolSt) (st : PStep) : (Pool.step s st).max = s.max := by
  unfold Pool.step
  split
  · rfl
  · cases st <;> simp only <;> repeat' split
    all_goals rfl

theorem run_max (steps : List PStep) : ∀ s, (Pool.run s steps).max = s.max := by
  induction steps with
  | nil => intro s; rfl
  | cons st rest ih => intro s; simp only [Pool.run, List.foldl] at ih ⊢; rw [ih, step_max]

theorem runningCount_le_length (ws : List WPc) : runningCount ws ≤ ws.length := by
  simp only [runningCount]; exact List.length_filter_le _ _

theorem held_of_all_running (ws : List WPc) (h : ∀ w ∈ ws, w.isRunning = true) :
    heldCount ws = ws.length ∧ runningCount ws = ws.length := by
  induction ws with
  | nil => simp [heldCount, runningCount]
  | cons w ws ih =>
    have hw := h w (by simp)
    have := ih (fun x hx => h x (by simp [hx]))
    have hj : w.hasJob = true := by cases w <;> simp [WPc.isRunning, WPc.hasJob] at *
    simp only [heldCount, runningCount] at this ⊢
    simp [hw, hj, this.1, this.2]

/-- **C14 bound**: in every state reachable from `ThreadPool::new(initial, max)`
    under any interleaving, at most `max` connections are being served. -/
theorem C14_bound (initial max : Nat) (hi : 0 < initial) (steps : List PStep) :
    Pool.serving (Pool.run (Pool.init initial max) steps) ≤ max := by
  have h := run_inv steps _ (init_inv initial max hi)
  have hm := run_max steps (Pool.init initial max)
  have := runningCount_le_length (Pool.run (Pool.init initial max) steps).workers
  have hb := h.bound
  rw [hm] at hb
  simp only [Pool.serving]
  simp only [Pool.init] at hb
  exact Nat.le_trans this hb

/-- **C14 no stranding**: no reachable state has the acceptor back in `accept`,
    a job waiting, every worker tied up in a connection and fewer than `max`
    connections in service. -/
theorem C14_no_stranding (initial max : Nat) (hi : 0 < initial) (steps : List PStep) :
    ¬ Pool.Stranded (Pool.run (Pool.init initial max) steps) := by
  intro ⟨hacc, hq, hall, hlt⟩
  have h := run_inv steps _ (init_inv initial max hi)
  have ⟨hheld, hrun⟩ := held_of_all_running _ hall
  have hb := h.busy_eq
  rw [hheld] at hb
  simp only [Pool.serving, hrun] at hlt
  rcases h.spare.1 hacc with h1 | h1
  · omega
  · omega

/-- **C14 progress**: whenever a connection waits in the queue while fewer than
    `max` are in service and the acceptor is back in `accept`, some *worker* step
    is enabled (a dequeue, the start of a held job, or the decrement after a
    finished one): serving the waiting connection never depends on another
    connection finishing or a further one arriving. -/
theorem C14_progress (initial max : Nat) (hi : 0 < initial) (steps : List PStep)
    (hacc : (Pool.run (Pool.init initial max) steps).acc = .accepting)
    (hq : Pool.queuedJobs (Pool.run (Pool.init initial max) steps) > 0)
    (hlt : Pool.serving (Pool.run (Pool.init initial max) steps) < max) :
    Pool.enabled (Pool.run (Pool.init initial max) steps) .deq = true ∨
    (∃ j, Pool.enabled (Pool.run (Pool.init initial max) steps) (.start j) = true) ∨
    (∃ j, Pool.enabled (Pool.run (Pool.init initial max) steps) (.dec j) = true) := by
  have hns := C14_no_stranding initial max hi steps
  have hm := run_max steps (Pool.init initial max)
  have hclean := (drain_run steps _ (drain_init initial max)).clean
  generalize Pool.run (Pool.init initial max) steps = s at *
  have hmax : s.max = max := by simpa [Pool.init] using hm
  -- not every worker is running, otherwise the state would be stranded
  have hex : ∃ w ∈ s.workers, w.isRunning = false := by
    apply Classical.byContradiction
    intro hno
    apply hns
    refine ⟨hacc, hq, ?_, by rw [hmax]; exact hlt⟩
    intro w hw
    cases hr : w.isRunning with
    | true => rfl
    | false => exact absurd ⟨w, hw, hr⟩ hno
  obtain ⟨w, hw, hr⟩ := hex
  have hnoterm := (hclean (by rw [hacc]; simp)).2
  have hqne : s.queue.isEmpty = false := by
    cases hqq : s.queue with
    | nil => simp [Pool.queuedJobs, hqq] at hq
    | cons _ _ => rfl
  cases w with
  | idle =>
    left
    simp only [Pool.enabled, hqne, Bool.not_false, Bool.and_true]
    exact List.any_eq_true.mpr ⟨.idle, hw, rfl⟩
  | holding j =>
    right; left
    exact ⟨j, by simp only [Pool.enabled]; exact List.any_eq_true.mpr ⟨.holding j, hw, by simp⟩⟩
  | running j => simp [WPc.isRunning] at hr
  | done j =>
    right; right
    exact ⟨j, by simp only [Pool.enabled]; exact List.any_eq_true.mpr ⟨.done j, hw, by simp⟩⟩
  | terminated => exact absurd hw hnoterm

/-- non-vacuity: the three-quick-arrivals schedule with two idle workers and
    max = 4 reaches a state with a queued job while both first workers still
    hold theirs — and the pool has grown, so the third job is not stranded -/
example :
    let s := Pool.run (Pool.init 2 4) [.enq, .grow, .deq, .enq, .grow, .deq, .enq, .grow, .start 0, .start 1]
    s.workers.length = 4 ∧ Pool.queuedJobs s = 1 ∧ Pool.serving s = 2 ∧ s.acc = .accepting := by
  decide

end VV
