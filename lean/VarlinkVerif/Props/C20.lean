/-
C20 — `varlink call` reports exactly what the service replied.  Over
Model.Cli (argument split, call / more loop, print, exit status) on top of
Model.Client.

The theorems quantify over all peers, all method names and arguments, all
reply streams `r₁ … r_k` (each `continues: true`) followed by a final reply
`f`, of any length and with any mixture of results and errors.
-/
import VarlinkVerif.Lemmas.Cli

namespace VV
open Client Cli

/-! ### the argument split -/

/-- **C20 (split)**: for *every* address text (unix paths with any number of
    slashes, abstract names, tcp, with or without `;parameters`) and every
    method name without '/': the argument `ADDRESS/METHOD` is taken apart at the
    last slash into exactly that address and that method. -/
theorem C20_split (addr method : String) (hs : '/' ∉ method.toList) (hd : '.' ∈ method.toList) :
    split (addr ++ "/" ++ method) = .direct addr method := by
  unfold split
  have e : (addr ++ "/" ++ method).toList = addr.toList ++ '/' :: method.toList := by
    simp [String.toList_append]
  rw [e, splitAtLast_append '/' method.toList hs addr.toList]
  simp [hd]

/-- a method part without a dot is refused (nothing is contacted) -/
theorem C20_split_nodot (addr method : String) (hs : '/' ∉ method.toList) (hd : '.' ∉ method.toList) :
    split (addr ++ "/" ++ method) = .invalid := by
  unfold split
  have e : (addr ++ "/" ++ method).toList = addr.toList ++ '/' :: method.toList := by
    simp [String.toList_append]
  rw [e, splitAtLast_append '/' method.toList hs addr.toList]
  simp [hd]

/-- without any slash the text before the last dot is resolved and the whole argument is the method -/
theorem C20_split_resolver (iface last : String) (h1 : '/' ∉ iface.toList) (h2 : '/' ∉ last.toList)
    (hd : '.' ∉ last.toList) :
    split (iface ++ "." ++ last) = .resolve iface (iface ++ "." ++ last) := by
  unfold split
  have e : (iface ++ "." ++ last).toList = iface.toList ++ '.' :: last.toList := by
    simp [String.toList_append]
  have hno : '/' ∉ (iface ++ "." ++ last).toList := by
    rw [e]; simp [h1, h2]
  rw [splitAtLast_none '/' _ hno]
  simp only
  rw [e, splitAtLast_append '.' last.toList hd iface.toList]
  simp

/-- **C20 (stdout)**: with `--more`, for every stream `r₁ … r_k, f` the
    documents printed are, in order, the parameters of the replies up to and
    excluding the first error reply — all `k+1` of them when none is an error.
    Without `--more` it is the parameters of the one reply, or nothing when it
    is an error.  (An absent `parameters` member prints as `{}`.) -/
theorem C20_stdout (p : Peer) (w : Wire) (method : String) (args : Option Json) (rs : List Reply) (f : Reply)
    (h : Answered p w method args true rs f) :
    (runCall p w method args true).stdout = ((rs ++ [f]).takeWhile isOk).map shown ∧
    ((∀ r ∈ rs ++ [f], r.error = none) → (runCall p w method args true).stdout = (rs ++ [f]).map shown) := by
  have h1 := (runCall_more p w method args rs f h).1
  have h2 := specIter_stdout rs f []
  have e : (runCall p w method args true).stdout = (specIter rs f []).1 := by
    rw [← h1]
  refine ⟨by rw [e, h2]; simp, ?_⟩
  intro hall
  rw [e, h2]
  have : (rs ++ [f]).takeWhile isOk = rs ++ [f] := by
    apply takeWhile_all
    intro r hr
    simp [isOk, hall r hr]
  simp [this]

theorem C20_stdout_plain (p : Peer) (w : Wire) (method : String) (args : Option Json) (f : Reply) (rest : List Msg)
    (hcw : w.canWrite = true) (hempty : w.queue = []) (hopen : w.closed = false)
    (hans : (p w.log (mkRequest method (args.getD .null) false false false)).1 = .reply f :: rest) :
    (runCall p w method args false).stdout = if f.error = none then [shown f] else [] := by
  have h1 := (runCall_plain p w method args f rest hcw hempty hopen hans).1
  have e : (runCall p w method args false).stdout = (specIter [] f []).1 := by rw [← h1]
  rw [e]
  cases he : f.error <;> simp [specIter, he]

/-- **C20 (exit status)**: the status is 0 exactly when every reply of the
    stream arrived and none of them is an error; otherwise it is 1. -/
theorem C20_exit (p : Peer) (w : Wire) (method : String) (args : Option Json) (rs : List Reply) (f : Reply)
    (h : Answered p w method args true rs f) :
    ((runCall p w method args true).exit = 0 ↔ ∀ r ∈ rs ++ [f], r.error = none) ∧
    ((runCall p w method args true).exit = 0 ∨ (runCall p w method args true).exit = 1) ∧
    (runCall p w method args true).hang = false := by
  have h1 := runCall_more p w method args rs f h
  have e : (runCall p w method args true).exit = (specIter rs f []).2.1 := by rw [← h1.1]
  rw [e]
  exact ⟨(specIter_exit rs f []).1, (specIter_exit rs f []).2, h1.2.1⟩

theorem C20_exit_plain (p : Peer) (w : Wire) (method : String) (args : Option Json) (f : Reply) (rest : List Msg)
    (hcw : w.canWrite = true) (hempty : w.queue = []) (hopen : w.closed = false)
    (hans : (p w.log (mkRequest method (args.getD .null) false false false)).1 = .reply f :: rest) :
    ((runCall p w method args false).exit = 0 ↔ f.error = none) ∧ (runCall p w method args false).hang = false := by
  have h1 := runCall_plain p w method args f rest hcw hempty hopen hans
  have e : (runCall p w method args false).exit = (specIter [] f []).2.1 := by rw [← h1.1]
  rw [e]
  refine ⟨?_, h1.2.1⟩
  have := (specIter_exit [] f []).1
  simpa using this

/-- a stream that ends before its final reply (the service closes after `k`
    `continues` replies, none of them an error): everything received is
    printed, and the status is 1 -/
theorem C20_exit_incomplete (p : Peer) (w : Wire) (method : String) (args : Option Json) (rs : List Reply)
    (hcw : w.canWrite = true) (hempty : w.queue = []) (hopen : w.closed = false)
    (hans : p w.log (mkRequest method (args.getD .null) false true false) = (rs.map Msg.reply, true))
    (hall : ∀ r ∈ rs, r.continues = some true ∧ r.error = none) :
    (runCall p w method args true).exit = 1 ∧ (runCall p w method args true).stdout = rs.map shown ∧
    (runCall p w method args true).report = some .failed := by
  have hsend := send_ok p false true false
    { conn := {}, call := { MCall.new method (args.getD .null) with continues := true }, wire := w }
    method (args.getD .null) rfl rfl rfl rfl hcw
  simp only [Bool.false_eq_true, if_false] at hsend
  have hqueue : (w.accept p (mkRequest method (args.getD .null) false true false)).queue = rs.map Msg.reply := by
    simp [Wire.accept, hempty, hopen, hans]
  have hclosed : (w.accept p (mkRequest method (args.getD .null) false true false)).closed = true := by
    simp [Wire.accept, hans]
  simp only [runCall, Bool.not_true, Bool.false_eq_true, if_false, Client.more]
  rw [hsend]
  simp only
  -- generalise over the state that owns the stream
  have key : ∀ (rs : List Reply) (fuel : Nat) (s : CS) (acc : List Json), rs.length + 1 ≤ fuel →
      s.call.reader = true → s.call.writer = true → s.call.continues = true →
      s.wire.queue = rs.map Msg.reply → s.wire.closed = true →
      (∀ r ∈ rs, r.continues = some true ∧ r.error = none) →
      (iterate fuel s acc).exit = 1 ∧ (iterate fuel s acc).stdout = acc ++ rs.map shown ∧
      (iterate fuel s acc).report = some .failed := by
    intro rs
    induction rs with
    | nil =>
      intro fuel s acc hfuel hr hw hc hq hcl _
      obtain ⟨fuel', rfl⟩ : ∃ n, fuel = n + 1 := ⟨fuel - 1, by simp at hfuel; omega⟩
      have hq' : s.wire.queue = [] := by simpa using hq
      simp [iterate, next, hc, recv, hr, hw, hq', hcl, reportOf]
    | cons r rs ih =>
      intro fuel s acc hfuel hr hw hc hq hcl hall
      obtain ⟨fuel', rfl⟩ : ∃ n, fuel = n + 1 := ⟨fuel - 1, by simp at hfuel; omega⟩
      have hq' : s.wire.queue = .reply r :: rs.map Msg.reply := by simpa using hq
      have hrc := (hall r (by simp)).1
      have hre : r.error.isSome = false := by simp [(hall r (by simp)).2]
      simp only [iterate, next, hc, Bool.not_true, Bool.false_eq_true, if_false]
      rw [recv_reply decValue s r _ hr hw hq']
      simp only [hrc, if_true, replyRes_ok r hre]
      have := ih fuel' { s with call := { s.call with continues := true }, wire := { s.wire with queue := rs.map Msg.reply } }
        (acc ++ [shown r]) (by simp at hfuel; omega) hr hw rfl rfl hcl (fun x hx => hall x (by simp [hx]))
      simpa using this
  have := key rs ((w.accept p (mkRequest method (args.getD .null) false true false)).queue.length + 2)
    { conn := { reader := false, writer := false },
      call := { ({ MCall.new method (args.getD .null) with continues := true } : MCall).spent with reader := true, writer := true },
      wire := w.accept p (mkRequest method (args.getD .null) false true false) } []
    (by rw [hqueue]; simp) rfl rfl rfl hqueue hclosed hall
  simpa using this

/-- **C20 (stdout while the stream is open)**: `--more` against a service that has sent `k`
    successful `continues` replies and keeps the connection open (a monitor): every one of the `k`
    replies is already on stdout while the tool waits for the next one — printing does not wait for
    the end of the stream. -/
theorem C20_stdout_while_open (p : Peer) (w : Wire) (method : String) (args : Option Json) (rs : List Reply)
    (hcw : w.canWrite = true) (hempty : w.queue = []) (hopen : w.closed = false)
    (hans : p w.log (mkRequest method (args.getD .null) false true false) = (rs.map Msg.reply, false))
    (hall : ∀ r ∈ rs, r.continues = some true ∧ r.error = none) :
    (runCall p w method args true).hang = true ∧ (runCall p w method args true).stdout = rs.map shown ∧
    (runCall p w method args true).report = none := by
  have hsend := send_ok p false true false
    { conn := {}, call := { MCall.new method (args.getD .null) with continues := true }, wire := w }
    method (args.getD .null) rfl rfl rfl rfl hcw
  simp only [Bool.false_eq_true, if_false] at hsend
  have hqueue : (w.accept p (mkRequest method (args.getD .null) false true false)).queue = rs.map Msg.reply := by
    simp [Wire.accept, hempty, hopen, hans]
  have hclosed : (w.accept p (mkRequest method (args.getD .null) false true false)).closed = false := by
    simp [Wire.accept, hans, hopen]
  simp only [runCall, Bool.not_true, Bool.false_eq_true, if_false, Client.more]
  rw [hsend]
  simp only
  have key : ∀ (rs : List Reply) (fuel : Nat) (s : CS) (acc : List Json), rs.length + 1 ≤ fuel →
      s.call.reader = true → s.call.writer = true → s.call.continues = true →
      s.wire.queue = rs.map Msg.reply → s.wire.closed = false →
      (∀ r ∈ rs, r.continues = some true ∧ r.error = none) →
      (iterate fuel s acc).hang = true ∧ (iterate fuel s acc).stdout = acc ++ rs.map shown ∧
      (iterate fuel s acc).report = none := by
    intro rs
    induction rs with
    | nil =>
      intro fuel s acc hfuel hr hw hc hq hcl _
      obtain ⟨fuel', rfl⟩ : ∃ n, fuel = n + 1 := ⟨fuel - 1, by simp at hfuel; omega⟩
      have hq' : s.wire.queue = [] := by simpa using hq
      simp [iterate, next, hc, recv, hr, hw, hq', hcl]
    | cons r rs ih =>
      intro fuel s acc hfuel hr hw hc hq hcl hall
      obtain ⟨fuel', rfl⟩ : ∃ n, fuel = n + 1 := ⟨fuel - 1, by simp at hfuel; omega⟩
      have hq' : s.wire.queue = .reply r :: rs.map Msg.reply := by simpa using hq
      have hrc := (hall r (by simp)).1
      have hre : r.error.isSome = false := by simp [(hall r (by simp)).2]
      simp only [iterate, next, hc, Bool.not_true, Bool.false_eq_true, if_false]
      rw [recv_reply decValue s r _ hr hw hq']
      simp only [hrc, if_true, replyRes_ok r hre]
      have := ih fuel' { s with call := { s.call with continues := true }, wire := { s.wire with queue := rs.map Msg.reply } }
        (acc ++ [shown r]) (by simp at hfuel; omega) hr hw rfl rfl hcl (fun x hx => hall x (by simp [hx]))
      simpa using this
  have := key rs ((w.accept p (mkRequest method (args.getD .null) false true false)).queue.length + 2)
    { conn := { reader := false, writer := false },
      call := { ({ MCall.new method (args.getD .null) with continues := true } : MCall).spent with reader := true, writer := true },
      wire := w.accept p (mkRequest method (args.getD .null) false true false) } []
    (by rw [hqueue]; simp) rfl rfl rfl hqueue hclosed hall
  simpa using this

/-- **C20 (error report)**: the first error reply `e` of the stream is what is
    reported: for the four standard errors their short name and the named
    parameter, for any other error its full name and its parameters, unchanged. -/
theorem C20_error_report (p : Peer) (w : Wire) (method : String) (args : Option Json) (rs : List Reply) (f : Reply)
    (h : Answered p w method args true rs f) (e : Reply)
    (hfirst : (rs ++ [f]).find? (fun r => r.error.isSome) = some e) :
    (runCall p w method args true).report = some (reportOf (kindOf e)) ∧
    (∀ name, e.error = some name → name ≠ sInterfaceNotFound → name ≠ sInvalidParameter →
       name ≠ sMethodNotFound → name ≠ sMethodNotImplemented →
       reportOf (kindOf e) = .named name e.parameters) ∧
    (e.error = some sInterfaceNotFound → reportOf (kindOf e) = .std "InterfaceNotFound" (paramString "interface" e.parameters)) ∧
    (e.error = some sInvalidParameter → reportOf (kindOf e) = .std "InvalidParameter" (paramString "parameter" e.parameters)) ∧
    (e.error = some sMethodNotFound → reportOf (kindOf e) = .std "MethodNotFound" (paramString "method" e.parameters)) ∧
    (e.error = some sMethodNotImplemented → reportOf (kindOf e) = .std "MethodNotImplemented" (paramString "method" e.parameters)) := by
  have h1 := (runCall_more p w method args rs f h).1
  have er : (runCall p w method args true).report = (specIter rs f []).2.2 := by rw [← h1]
  refine ⟨by rw [er, specIter_report rs f [], hfirst]; rfl, ?_, ?_, ?_, ?_, ?_⟩
  · intro name hn h1 h2 h3 h4
    simp [kindOf, hn, h1, h2, h3, h4, reportOf]
  · intro hn; simp [kindOf, hn, reportOf]
  · intro hn; simp [kindOf, hn, reportOf, sInterfaceNotFound, sInvalidParameter]
  · intro hn; simp [kindOf, hn, reportOf, sInterfaceNotFound, sInvalidParameter, sMethodNotFound]
  · intro hn; simp [kindOf, hn, reportOf, sInterfaceNotFound, sInvalidParameter, sMethodNotFound, sMethodNotImplemented]

/-- no report on success -/
theorem C20_no_report_on_success (p : Peer) (w : Wire) (method : String) (args : Option Json) (rs : List Reply) (f : Reply)
    (h : Answered p w method args true rs f) (hall : ∀ r ∈ rs ++ [f], r.error = none) :
    (runCall p w method args true).report = none := by
  have h1 := (runCall_more p w method args rs f h).1
  have er : (runCall p w method args true).report = (specIter rs f []).2.2 := by rw [← h1]
  rw [er, specIter_report rs f []]
  have : (rs ++ [f]).find? (fun r => r.error.isSome) = none := by
    apply List.find?_eq_none.mpr
    intro r hr
    simp [hall r hr]
  rw [this]; rfl

/-- the request the service sees carries the method and the arguments verbatim (absent arguments: `null`) -/
theorem C20_request (p : Peer) (w : Wire) (method : String) (args : Option Json) (rs : List Reply) (f : Reply)
    (h : Answered p w method args true rs f) :
    (runCall p w method args true).wire.log = w.log ++
      [{ method := method, parameters := some (args.getD .null), more := some true }] := by
  rw [(runCall_more p w method args rs f h).2.2]
  simp [mkRequest]

/-- non-vacuity: a concrete service, two successful `continues` replies, an error as final reply -/
example :
    let p : Peer := fun _ _ => ([.reply { continues := some true, parameters := some (.int 1) },
                                 .reply { continues := some true },
                                 .reply { error := some "org.example.Done", parameters := some (.str "why") }], true)
    Answered p {} "org.example.Stream" none true
      [{ continues := some true, parameters := some (.int 1) }, { continues := some true }]
      { error := some "org.example.Done", parameters := some (.str "why") } ∧
    runCall p {} "org.example.Stream" none true =
      { stdout := [.int 1, .obj []], exit := 1, report := some (.named "org.example.Done" (some (.str "why"))),
        wire := { log := [{ method := "org.example.Stream", parameters := some .null, more := some true }],
                  closed := true } } ∧
    split "unix:/run/a/b.c/sock/org.example.Stream" = .direct "unix:/run/a/b.c/sock" "org.example.Stream" := by
  refine ⟨⟨rfl, rfl, rfl, rfl, ?_, by decide⟩, by decide, by decide⟩
  intro r hr
  simp at hr
  rcases hr with rfl | rfl <;> rfl

/-- the split is at the *last* slash also when the address itself ends in a slash or in `/.`
    (abstract socket names may), and an error of a user interface that merely shares its short
    name with a standard error is reported with its full name and all its parameters -/
example :
    split "unix:@NAME//org.example.Ping" = .direct "unix:@NAME/" "org.example.Ping" ∧
    split "unix:@NAME/./org.example.Ping" = .direct "unix:@NAME/." "org.example.Ping" ∧
    reportOf (kindOf { error := some "com.example.InvalidParameter", parameters := some (.obj [("field", .str "size")]) })
      = .named "com.example.InvalidParameter" (some (.obj [("field", .str "size")])) := by decide

end VV
