/-
C06 — malformed or hostile input is contained (the logic part).

`dec : Bytes → Frame` stands for `serde_json::from_slice::<Request>`; it is a
parameter: the theorems hold for *every* decoder, hence for every way a byte
string can be rejected (invalid JSON, invalid UTF-8, wrong member types,
excessive nesting, empty message ...).  "Never panics" for serde_json / std
under real memory limits is observed by the correspondence run, not proved.
-/
import VarlinkVerif.Lemmas.Wire

namespace VV

/-- **C06 (frames)**: if the frames before the first malformed one are all
    served (the connection is still in varlink mode), then the outcome of the
    whole list is: exactly their replies, nothing for the malformed frame and
    nothing for any later frame, status `err` (the caller closes the
    connection). -/
theorem C06_bad_frame_contained (c : Consts) (svc : Service) (pre post : List Frame)
    (h : (serve c svc pre).status = .eof) :
    serve c svc (pre ++ .bad :: post) =
      { groups := (serve c svc pre).groups, status := .err, consumed := pre.length + 1 } := by
  rw [serve_append_eof c svc pre (.bad :: post) h]
  simp [serve]

/-- if an earlier frame already ended the connection (script error, upgrade),
    later malformed frames are never looked at -/
theorem C06_bad_after_stop_ignored (c : Consts) (svc : Service) (pre post : List Frame)
    (h : (serve c svc pre).status ≠ .eof) :
    serve c svc (pre ++ .bad :: post) = serve c svc pre :=
  serve_append_stop c svc pre _ h

/-- **C06 (bytes)**: for every decoder, every byte stream and every read
    schedule, `handle` is a total function whose replies are those of the
    well-formed prefix: with `k` the index of the first frame `dec` rejects and
    the earlier frames served, the output is `serve` of the first `k` frames
    and the result is `Err`. -/
theorem C06_handle_contains_bad (c : Consts) (svc : Service) (dec : Bytes → Frame)
    (reads : List Bytes) (hne : NoEmpty reads) (ms1 ms2 : List Bytes) (m : Bytes)
    (hfr : (frames reads.flatten).1 = ms1 ++ m :: ms2) (hbad : dec m = .bad)
    (hpre : (serve c svc (ms1.map dec)).status = .eof) :
    (handle c svc dec reads).groups = (serve c svc (ms1.map dec)).groups ∧
    (handle c svc dec reads).status = .err ∧
    (handle c svc dec reads).tail = [] := by
  have s := handle_spec c svc dec reads hne
  obtain ⟨g, st, _, e, _⟩ := s
  have hm : (frames reads.flatten).1.map dec = ms1.map dec ++ Frame.bad :: ms2.map dec := by
    rw [hfr]; simp [hbad]
  rw [hm, C06_bad_frame_contained c svc _ _ hpre] at g st e
  exact ⟨g, st, e rfl⟩

/-- non-vacuity -/
example :
    let c : Consts := { serviceDesc := "" }
    let svc : Service := { vendor := "", product := "", version := "", url := "", ifaces := [] }
    let pre := [Frame.req { method := "org.varlink.service.GetInfo" }]
    (serve c svc pre).status = .eof ∧
    (serve c svc (pre ++ .bad :: [Frame.req { method := "x.Y" }])).groups.length = 1 := by
  decide

end VV
