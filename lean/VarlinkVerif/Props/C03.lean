/-
C03 — calls are routed by interface name; the service interface tells the truth.
Quantifiers: every service (any number of registrations, arbitrary names,
duplicates allowed), every method string, every parameter value.
-/
import VarlinkVerif.Lemmas.Wire
import VarlinkVerif.Lemmas.WireExtracted
import VarlinkVerif.Props.C01

namespace VV

/-! #### the split at the last dot -/

theorem ifaceOfChars_no_dot : ∀ (m : List Char), '.' ∉ m → ifaceOfChars m = none := by
  intro m
  induction m with
  | nil => intro _; rfl
  | cons c cs ih =>
    intro h
    simp at h
    simp [ifaceOfChars, ih h.2]
    exact fun e => h.1 e.symm

/-- `p ++ "." ++ m` with no dot in `m` splits into `p` — whatever dots `p`
    itself contains: a name that is a prefix or a suffix of another one can
    never be confused with it. -/
theorem ifaceOfChars_append (p m : List Char) (hm : '.' ∉ m) :
    ifaceOfChars (p ++ '.' :: m) = some p := by
  induction p with
  | nil => simp [ifaceOfChars, ifaceOfChars_no_dot m hm]
  | cons c cs ih => simp [ifaceOfChars, ih]

theorem ifaceOfChars_some {s p : List Char} (h : ifaceOfChars s = some p) :
    ∃ m, s = p ++ '.' :: m ∧ '.' ∉ m := by
  induction s generalizing p with
  | nil => simp [ifaceOfChars] at h
  | cons c cs ih =>
    simp only [ifaceOfChars] at h
    cases h2 : ifaceOfChars cs with
    | some q =>
      rw [h2] at h
      simp at h
      obtain ⟨m, e, hm⟩ := ih h2
      exact ⟨m, by rw [← h, e]; simp, hm⟩
    | none =>
      rw [h2] at h
      simp at h
      obtain ⟨hc, hp⟩ := h
      refine ⟨cs, by rw [hc, hp]; simp, ?_⟩
      intro hmem
      -- a dot in `cs` would give `ifaceOfChars cs ≠ none`
      have : ∀ l : List Char, '.' ∈ l → ifaceOfChars l ≠ none := by
        intro l
        induction l with
        | nil => intro h; simp at h
        | cons x xs ihx =>
          intro hx
          simp only [ifaceOfChars]
          cases h3 : ifaceOfChars xs with
          | some _ => simp
          | none =>
            simp at hx
            cases hx with
            | inl e => simp [← e]
            | inr e => exact absurd h3 (ihx e)
      exact this cs hmem h2

theorem C03_split_at_last_dot (iface meth : String) (hm : '.' ∉ meth.toList) :
    ifaceOf (iface ++ "." ++ meth) = some iface := by
  unfold ifaceOf
  have : (iface ++ "." ++ meth).toList = iface.toList ++ '.' :: meth.toList := by
    simp [String.toList_append]
  rw [this, ifaceOfChars_append _ _ hm]
  simp

/-! #### routing -/

/-- **C03 routing**: a call whose method splits to interface `i` (not the
    built-in one) reaches exactly the interface registered under `i` (the last
    registration under that name), which sees the request unchanged — flags,
    method and parameters — and nothing else runs. -/
theorem C03_routes_to_named_interface (c : Consts) (svc : Service) (req : Request) (i : String)
    (ifc : Iface) (hi : ifaceOf req.method = some i) (hne : i ≠ svcName)
    (hl : svc.lookup i = some ifc) :
    ifc.name = i ∧
    (callOne c svc req).out = (runActs req (ifc.script req) {}).1.out ∧
    (callOne c svc req).ok = (runActs req (ifc.script req) {}).2 := by
  have hn : ifc.name = i := by
    have := List.find?_some hl
    simpa using this
  rw [callOne_route c svc req i hi, routeCall_some c svc req {} i ifc hne hl]
  exact ⟨hn, rfl, rfl⟩

theorem lookup_eq_none_iff (svc : Service) (i : String) :
    svc.lookup i = none ↔ ∀ x ∈ svc.ifaces, x.name ≠ i := by
  simp [Service.lookup, List.find?_eq_none]

theorem lookup_isSome_of_mem (svc : Service) (x : Iface) (hx : x ∈ svc.ifaces) :
    ∃ y, svc.lookup x.name = some y ∧ y ∈ svc.ifaces ∧ y.name = x.name := by
  cases h : svc.lookup x.name with
  | none => exact absurd rfl ((lookup_eq_none_iff svc x.name).mp h x hx)
  | some y =>
    refine ⟨y, rfl, ?_, ?_⟩
    · have := List.mem_of_find?_eq_some h; simpa using this
    · have := List.find?_some h; simpa using this

/-- **C03 InterfaceNotFound**: no registration under `i` ⇒ exactly one reply,
    `org.varlink.service.InterfaceNotFound` naming `i`. -/
theorem C03_interface_not_found (c : Consts) (svc : Service) (req : Request) (i : String)
    (hi : ifaceOf req.method = some i) (hne : i ≠ svcName)
    (hl : ∀ x ∈ svc.ifaces, x.name ≠ i) (ho : isOneway req = false) :
    (callOne c svc req).out = [errInterfaceNotFound i] ∧ (callOne c svc req).ok = true := by
  rw [callOne_route c svc req i hi,
    routeCall_none c svc req {} i hne ((lookup_eq_none_iff svc i).mpr hl)]
  simp [runActs, replyStruct, ho]

/-- a method string without any dot is answered with InterfaceNotFound naming
    the whole string -/
theorem C03_no_dot (c : Consts) (svc : Service) (req : Request)
    (hi : ifaceOf req.method = none) (ho : isOneway req = false) :
    (callOne c svc req).out = [errInterfaceNotFound req.method] ∧ (callOne c svc req).ok = true := by
  rw [callOne_nodot c svc req hi]
  simp [runActs, replyStruct, ho]

/-- **C03 MethodNotFound**: a generated interface that lacks the method answers
    `org.varlink.service.MethodNotFound` naming the full method string. -/
theorem C03_method_not_found (c : Consts) (svc : Service) (req : Request) (i : String)
    (name desc : String) (methods : List (String × (Request → List Act)))
    (hi : ifaceOf req.method = some i) (hne : i ≠ svcName)
    (hl : svc.lookup i = some (genIface name desc methods))
    (hm : ∀ m ∈ methods, m.1 ≠ req.method) (ho : isOneway req = false) :
    (callOne c svc req).out = [errMethodNotFound req.method] ∧ (callOne c svc req).ok = true := by
  rw [callOne_route c svc req i hi, routeCall_some c svc req {} i _ hne hl]
  have : methods.find? (fun m => m.1 == req.method) = none := by
    simp only [List.find?_eq_none]
    intro m hmem; simpa using hm m hmem
  simp [genIface, this, runActs, replyStruct, ho]

/-- the built-in interface lacks every method but its two -/
theorem C03_service_method_not_found (c : Consts) (svc : Service) (req : Request)
    (hi : ifaceOf req.method = some svcName)
    (h1 : req.method ≠ "org.varlink.service.GetInfo")
    (h2 : req.method ≠ "org.varlink.service.GetInterfaceDescription") (ho : isOneway req = false) :
    (callOne c svc req).out = [errMethodNotFound req.method] ∧ (callOne c svc req).ok = true := by
  rw [callOne_route c svc req svcName hi, routeCall_svc]
  have b1 : (req.method == "org.varlink.service.GetInfo") = false := by simpa using h1
  have b2 : (req.method == "org.varlink.service.GetInterfaceDescription") = false := by simpa using h2
  simp [builtinCall, b1, b2, runActs, replyStruct, ho]

/-! #### GetInfo / GetInterfaceDescription -/

theorem mem_dedup (n : String) : ∀ l : List String, n ∈ dedup l ↔ n ∈ l := by
  intro l
  induction l with
  | nil => simp [dedup]
  | cons x xs ih =>
    simp only [dedup, List.mem_cons, List.mem_filter, ih]
    constructor
    · rintro (h | ⟨h, _⟩)
      · exact Or.inl h
      · exact Or.inr h
    · rintro (h | h)
      · exact Or.inl h
      · by_cases e : n = x
        · exact Or.inl e
        · exact Or.inr ⟨h, by simpa using e⟩

theorem nodup_dedup : ∀ l : List String, (dedup l).Nodup := by
  intro l
  induction l with
  | nil => simp [dedup]
  | cons x xs ih =>
    simp only [dedup, List.nodup_cons, List.mem_filter]
    refine ⟨?_, ih.filter _⟩
    rintro ⟨_, h⟩
    simp at h

theorem keys_nodup (svc : Service) : svc.keys.Nodup := nodup_dedup _

theorem mem_keys (svc : Service) (n : String) : n ∈ svc.keys ↔ ∃ x ∈ svc.ifaces, x.name = n := by
  unfold Service.keys
  rw [mem_dedup]
  simp

/-- **C03 GetInfo**: the reply carries the configured vendor, product, version
    and url, lists `org.varlink.service` first and then every registered
    interface name exactly once (a name registered twice appears once). -/
theorem C03_getinfo (c : Consts) (svc : Service) (req : Request)
    (hm : req.method = "org.varlink.service.GetInfo") (ho : isOneway req = false) :
    (callOne c svc req).out =
      [Reply.params (some (.obj [("interfaces", .arr ((svcName :: svc.keys).map .str)),
        ("product", .str svc.product), ("url", .str svc.url),
        ("vendor", .str svc.vendor), ("version", .str svc.version)]))] ∧
    (callOne c svc req).ok = true ∧
    svc.keys.Nodup ∧ (∀ n, n ∈ svc.keys ↔ ∃ x ∈ svc.ifaces, x.name = n) := by
  have hi : ifaceOf req.method = some svcName := by
    rw [hm]; decide
  rw [callOne_route c svc req svcName hi, routeCall_svc]
  refine ⟨?_, ?_, keys_nodup svc, mem_keys svc⟩
  · simp [builtinCall, hm, replyParameters, ho, Service.infoJson]
  · simp [builtinCall, hm]

/-- **C03 GetInterfaceDescription**: for a registered interface the reply is its
    description text verbatim; for `org.varlink.service` the built-in text. -/
theorem C03_description_verbatim (c : Consts) (svc : Service) (req : Request) (p : Json) (i : String)
    (hm : req.method = "org.varlink.service.GetInterfaceDescription")
    (hp : req.parameters = some p) (hd : decodeDescArgs p = some i) (ho : isOneway req = false) :
    (i = svcName →
      (callOne c svc req).out = [Reply.params (some (.obj [("description", .str c.serviceDesc)]))]) ∧
    (∀ ifc, i ≠ svcName → svc.lookup i = some ifc →
      (callOne c svc req).out = [Reply.params (some (.obj [("description", .str ifc.desc)]))]) := by
  have hi : ifaceOf req.method = some svcName := by rw [hm]; decide
  rw [callOne_route c svc req svcName hi, routeCall_svc]
  constructor
  · intro e
    simp [builtinCall, hm, hp, hd, e, replyParameters, ho]
  · intro ifc hne hl
    have hb : (i == svcName) = false := by simpa using hne
    simp [builtinCall, hm, hp, hd, hb, hl, replyParameters, ho]

/-- **C03 InvalidParameter**: no parameters ⇒ `InvalidParameter("parameters")`;
    an interface that is not registered ⇒ `InvalidParameter("interface")`. -/
theorem C03_description_invalid_parameter (c : Consts) (svc : Service) (req : Request)
    (hm : req.method = "org.varlink.service.GetInterfaceDescription") (ho : isOneway req = false) :
    (req.parameters = none → (callOne c svc req).out = [errInvalidParameter "parameters"]) ∧
    (∀ p i, req.parameters = some p → decodeDescArgs p = some i → i ≠ svcName →
      (∀ x ∈ svc.ifaces, x.name ≠ i) → (callOne c svc req).out = [errInvalidParameter "interface"]) := by
  have hi : ifaceOf req.method = some svcName := by rw [hm]; decide
  rw [callOne_route c svc req svcName hi, routeCall_svc]
  constructor
  · intro hp
    simp [builtinCall, hm, hp, runActs, replyStruct, ho]
  · intro p i hp hd hne hl
    have hb : (i == svcName) = false := by simpa using hne
    simp [builtinCall, hm, hp, hd, hb, (lookup_eq_none_iff svc i).mpr hl, runActs, replyStruct, ho]

/-- non-vacuity: names sharing prefixes; `a.b.c.M` goes to `a.b.c`, not `a.b` -/
example :
    ifaceOf "a.b.c.M" = some "a.b.c" ∧ ifaceOf "a.b.M" = some "a.b" ∧ ifaceOf "nodot" = none ∧
    ifaceOf "a." = some "a" ∧ ifaceOf ".M" = some "" := by decide

/-- Tie by extraction: the name of the built-in interface and the four error names the library replies
    with are the string literals of /repo/varlink/src/lib.rs now (read on every run). -/
theorem C03_names_are_source :
    svcName = ExtractedWire.svcName ∧
    sInterfaceNotFound = ExtractedWire.sInterfaceNotFound ∧
    sMethodNotFound = ExtractedWire.sMethodNotFound ∧
    sMethodNotImplemented = ExtractedWire.sMethodNotImplemented ∧
    sInvalidParameter = ExtractedWire.sInvalidParameter := names_are_source

end VV
