/-
C12 — parsing is total and its diagnostics point into the input.

`Input = List Char` is an arbitrary string of Unicode scalar values (every Rust `&str`).
`tryFrom` is the model of `IDL::try_from` (Model/Idl.lean); `parseInterfaceF n` is the
grammar with fuel `n`; `Pos.errPos` is peg's furthest-failure position.
-/
import VarlinkVerif.Model.Idl
import VarlinkVerif.Lemmas.IdlPos
import VarlinkVerif.Lemmas.IdlFuel
import VarlinkVerif.Lemmas.IdlPegPos

namespace VV
open Idl

/-- **C12 position → line/column**: for EVERY string `s` and EVERY position `p ≤ |s|` (not only
    those the parser can report), peg's line number `1 + #'\n' before p` selects an existing piece
    of `s.split('\n')` — so `nth(line - 1).unwrap()` in `try_from` cannot fail — and the column
    `1 + #chars since the last '\n'` satisfies `1 ≤ column ≤ |that line| + 1`. -/
theorem C12_position_valid (s : Input) (p : Nat) (hp : p ≤ s.length) :
    ∃ l, lineText s (lineOf s p) = some l ∧ l ∈ splitLines s ∧
      1 ≤ colOf s p ∧ colOf s p ≤ l.length + 1 := by
  obtain ⟨l, hl, hseg⟩ := pos_in_lines s p hp
  refine ⟨l, ?_, ?_, ?_, ?_⟩
  · simpa [lineText, lineOf] using hl
  · exact List.mem_of_getElem? hl
  · simp [colOf]
  · simp only [colOf]
    unfold lastSeg at hseg
    omega

/-- `splitLines` is `split('\n')`: the pieces contain no '\n' and joining them with '\n' gives the
    input back (so "a line of the input" means what it says). -/
theorem C12_split_is_split (s : Input) :
    joinLines (splitLines s) = s ∧ ∀ l ∈ splitLines s, '\n' ∉ l := by
  induction s with
  | nil => simp [splitLines, joinLines]
  | cons c r ih =>
    obtain ⟨ih1, ih2⟩ := ih
    by_cases hc : c = '\n'
    · subst hc
      simp only [splitLines, if_true]
      cases hs : splitLines r with
      | nil => exact absurd hs (splitLines_ne_nil r)
      | cons y ys =>
        rw [hs] at ih1 ih2
        refine ⟨by simp [joinLines, ih1], ?_⟩
        intro l hl
        simp only [List.mem_cons] at hl
        rcases hl with rfl | hl
        · simp
        · exact ih2 l (by simp only [List.mem_cons]; exact hl)
    · simp only [splitLines, if_neg hc]
      cases hs : splitLines r with
      | nil => exact absurd hs (splitLines_ne_nil r)
      | cons y ys =>
        rw [hs] at ih1 ih2
        refine ⟨?_, ?_⟩
        · cases ys with
          | nil => simpa [joinLines] using ih1
          | cons z zs => simpa [joinLines] using ih1
        · intro l hl
          simp only [List.mem_cons] at hl
          rcases hl with rfl | hl
          · intro hm
            simp only [List.mem_cons] at hm
            rcases hm with e | e
            · exact hc e.symm
            · exact ih2 y (by simp) e
          · exact ih2 l (by simp [hl])

/-- **C12 totality (termination)**: the grammar model is defined by structural recursion on a
    fuel counter; this theorem is the termination argument: whatever fuel above the input length is
    supplied, the result is the same — every iteration of every starred sub-expression
    (`wce*`, `(sep elem)*`, name character loops) and every descent into `type_` consumes input,
    so the fuel `|s| + 1` that `parse` supplies is never exhausted.  For every string `s`. -/
theorem C12_total (s : Input) (n m : Nat) (hn : s.length ≤ n) (hm : s.length ≤ m) :
    parseInterfaceF n s = parseInterfaceF m s :=
  parseInterfaceF_fuel n m s hn hm

/-- the same for the recursive rule `type_` (nesting of any depth) -/
theorem C12_total_types (s : Input) (n m : Nat) (hn : s.length < n) (hm : s.length < m) :
    typeF n s = typeF m s :=
  typeF_fuel n m s hn hm

/-- **C12 outcome**: for every input, `try_from` returns a definition, an `Idl` error, or a
    `Parse` error whose line is a line of the input and whose column lies within it; the
    `unwrap` on the line lookup never fails. -/
theorem C12_outcome (s : Input) :
    (∃ i, tryFrom s = .ok i) ∨ (∃ m, tryFrom s = .idlError m) ∨
    (∃ l c, tryFrom s = .parseError (some l) c ∧ l ∈ splitLines s ∧ 1 ≤ c ∧ c ≤ l.length + 1) := by
  unfold tryFrom
  split
  · dsimp only
    split
    · exact Or.inl ⟨_, rfl⟩
    · exact Or.inr (Or.inl ⟨_, rfl⟩)
  · refine Or.inr (Or.inr ?_)
    have hp : (Pos.errPos s).getD 0 ≤ s.length := by
      cases h : Pos.errPos s with
      | none => simp
      | some p => simpa using Pos.errPos_le s p h
    obtain ⟨l, h1, h2, h3, h4⟩ := C12_position_valid s _ hp
    exact ⟨l, _, by dsimp only; rw [h1], h2, h3, h4⟩

/-- **C12 display**: the rendering of a `Parse` error is defined for every line and every column
    (`{marker:>column$}`: `column - 1` spaces, then the caret; column 0 gives the bare caret), and
    of an `Idl` error for every message. -/
theorem C12_display_total (line : Str) (column : Nat) (msg : Str) :
    (∃ pad, displayParse line column = "Varlink parse error\n".toList ++ line ++ '\n' :: pad ++ ['^'] ∧
      pad.length = column - 1 ∧ ∀ c ∈ pad, c = ' ') ∧
    displayIdl msg = "Interface definition error: ".toList ++ msg :=
  ⟨⟨List.replicate (column - 1) ' ', rfl, by simp, fun c hc => (List.mem_replicate.mp hc).2⟩, rfl⟩

/-- a text the grammar rejects gets a `Parse` error that carries an existing line -/
theorem C12_reject_has_line (s : Input) (h : parse s = none) :
    ∃ l c, tryFrom s = .parseError (some l) c ∧ l ∈ splitLines s ∧ 1 ≤ c ∧ c ≤ l.length + 1 := by
  rcases C12_outcome s with ⟨i, hi⟩ | ⟨m, hm⟩ | h3
  · unfold tryFrom at hi; rw [h] at hi; cases hi
  · unfold tryFrom at hm; rw [h] at hm; cases hm
  · exact h3

/-- non-vacuity: a rejected text (third branch of `C12_outcome`); position 32 of it is line 2,
    column 19, and that line exists -/
example : ∃ l c, tryFrom "interface a.b\nmethod F() -> (x: !)".toList = .parseError (some l) c := by
  obtain ⟨l, c, h, _⟩ := C12_reject_has_line "interface a.b\nmethod F() -> (x: !)".toList (by decide)
  exact ⟨l, c, h⟩

example : lineOf "interface a.b\nmethod F() -> (x: !)".toList 32 = 2 ∧
    colOf "interface a.b\nmethod F() -> (x: !)".toList 32 = 19 ∧
    lineText "interface a.b\nmethod F() -> (x: !)".toList 2 = some "method F() -> (x: !)".toList := by decide

/-- U+2028 ends a line for the grammar but not for the position: one line, column 16 -/
example : lineOf "interface a.b\u2028!".toList 15 = 1 ∧ colOf "interface a.b\u2028!".toList 15 = 16 := by decide

example : (match tryFrom "interface a.b\ntype T (a: ?[]int)".toList with | .ok _ => true | _ => false) = true := by
  decide

end VV
