/-
C05 — `continues` only answers `more` (server half); the client half
(iteration of a `more` call) is in Props/C07.lean over Model.Client.

Alphabet of the property: method implementations are scripts over
{set_continues(b), reply(r), reply_error(r)} (with or without `?`), where the
replies are built by `Reply::parameters` / `Reply::error`, i.e. carry no
`continues` member of their own (`PlainActs`).
-/
import VarlinkVerif.Lemmas.Wire
import VarlinkVerif.Lemmas.WireExtracted

namespace VV

/-- replies handed to `reply_struct` come from `Reply::parameters/error` -/
def PlainAct : Act → Prop
  | .reply r => r.continues = none
  | .replyTry r => r.continues = none
  | _ => True

def PlainActs (acts : List Act) : Prop := ∀ a ∈ acts, PlainAct a

/-- every reply in `out` that says `continues: true` answers a `more` request -/
def ContOnlyMore (req : Request) (out : List Reply) : Prop :=
  ∀ r ∈ out, r.continues = some true → wantsMore req = true

/-- **C05 gate**: `reply_struct` with `continues` set and no `more` in the
    request fails and writes nothing (the state, and with it the output, is
    returned unchanged by `runActs`, see `C05_mismatch_writes_nothing`). -/
theorem C05_gate (req : Request) (st : CallSt) (r : Reply)
    (hc : st.continues = true) (hm : wantsMore req = false) : replyStruct req st r = none := by
  simp [replyStruct, hc, hm]

theorem replyStruct_contOnlyMore (req : Request) (st st' : CallSt) (r : Reply)
    (hr : r.continues = none) (h : ContOnlyMore req st.out)
    (e : replyStruct req st r = some st') : ContOnlyMore req st'.out ∧ st'.continues = st.continues := by
  unfold replyStruct at e
  split at e
  · simp at e
  · rename_i hgate
    split at e
    · simp at e; subst e; exact ⟨h, rfl⟩
    · simp at e; subst e
      refine ⟨?_, rfl⟩
      intro x hx hxc
      simp at hx
      cases hx with
      | inl hx => exact h x hx hxc
      | inr hx =>
        by_cases hcont : st.continues = true
        · simp [hcont] at hgate
          exact hgate
        · simp [hcont] at hx
          rw [hx, hr] at hxc
          simp at hxc

/-- **C05 (server)**: for every request, every plain script and every starting
    state of the call, no reply with `continues: true` is written unless the
    request carried `more: true`. -/
theorem C05_continues_only_for_more (req : Request) :
    ∀ (acts : List Act) (st : CallSt), PlainActs acts → ContOnlyMore req st.out →
      ContOnlyMore req (runActs req acts st).1.out := by
  intro acts
  induction acts with
  | nil => intro st _ h; simpa [runActs] using h
  | cons a as ih =>
    intro st hp h
    have hpa : PlainAct a := hp a (by simp)
    have hps : PlainActs as := fun x hx => hp x (by simp [hx])
    cases a with
    | setContinues b => simp only [runActs]; exact ih _ hps h
    | toUpgraded => simp only [runActs]; exact ih _ hps h
    | fail => simpa [runActs] using h
    | reply r =>
      simp only [runActs]
      cases e : replyStruct req st r with
      | none => simpa using h
      | some st' =>
        exact ih st' hps (replyStruct_contOnlyMore req st st' r hpa h e).1
    | replyTry r =>
      simp only [runActs]
      cases e : replyStruct req st r with
      | none => exact ih st hps h
      | some st' =>
        exact ih st' hps (replyStruct_contOnlyMore req st st' r hpa h e).1

/-- **C05**: an action that hits the gate makes the script fail (`reply`) or is
    skipped (`replyTry`); in both cases nothing is written by that action. -/
theorem C05_mismatch_writes_nothing (req : Request) (st : CallSt) (r : Reply) (rest : List Act)
    (hc : st.continues = true) (hm : wantsMore req = false) :
    runActs req (.reply r :: rest) st = (st, false) ∧
    runActs req (.replyTry r :: rest) st = runActs req rest st := by
  simp [runActs, C05_gate req st r hc hm]

/-- the same at the level of a whole connection: every service whose scripts
    are plain, every frame list -/
def PlainSvc (svc : Service) : Prop := ∀ i ∈ svc.ifaces, ∀ r, PlainActs (i.script r)

theorem callOne_contOnlyMore (c : Consts) (svc : Service) (hs : PlainSvc svc) (req : Request) :
    ContOnlyMore req (callOne c svc req).out := by
  have h0 : ContOnlyMore req ({} : CallSt).out := by intro r hr; simp at hr
  have plain1 : ∀ r : Reply, r.continues = none → PlainActs [.reply r] := by
    intro r hr a ha; simp at ha; subst ha; exact hr
  unfold callOne
  cases hi : ifaceOf req.method with
  | none =>
    simp only
    exact C05_continues_only_for_more req _ {} (plain1 _ rfl) h0
  | some iface =>
    simp only
    unfold routeCall
    split
    · unfold builtinCall
      repeat' split
      all_goals first
        | exact C05_continues_only_for_more req _ {} (plain1 _ rfl) h0
        | (simp only [replyParameters]; split
           · exact h0
           · intro r hr hc; simp [Reply.params] at hr; subst hr; simp at hc)
        | exact h0
    · split
      · rename_i ifc hl
        have hmem : ifc ∈ svc.ifaces := by
          have := List.mem_of_find?_eq_some hl
          simpa using this
        exact C05_continues_only_for_more req _ {} (hs ifc hmem req) h0
      · exact C05_continues_only_for_more req _ {} (plain1 _ rfl) h0

theorem C05_connection (c : Consts) (svc : Service) (hs : PlainSvc svc) :
    ∀ (fs : List Frame) (i : Nat) (r : Request) (g : List Reply),
      fs[i]? = some (.req r) → (serve c svc fs).groups[i]? = some g → ContOnlyMore r g := by
  intro fs
  induction fs with
  | nil => intro i r g h; simp at h
  | cons f fs ih =>
    intro i r g h hg
    cases f with
    | bad => simp [serve] at hg
    | req r0 =>
      simp only [serve] at hg
      cases i with
      | zero =>
        simp at h; subst h
        have := callOne_contOnlyMore c svc hs r0
        split at hg
        · simp at hg; rw [← hg]; exact this
        · split at hg
          · simp at hg; rw [← hg]; exact this
          · simp at hg; rw [← hg]; exact this
      | succ j =>
        simp at h
        split at hg
        · simp at hg
        · split at hg
          · simp at hg
          · simp at hg; exact ih j r g h hg

/-- non-vacuity: the canonical streaming script is plain, and without `more`
    it hits the gate at its first reply -/
example :
    let acts : List Act := [.setContinues true, .reply (Reply.params none), .setContinues false, .reply (Reply.params none)]
    PlainActs acts ∧
    runActs { method := "a.M" } acts {} = ({ continues := true }, false) ∧
    (runActs { method := "a.M", more := some true } acts {}).1.out =
      [{ continues := some true }, {}] := by
  refine ⟨?_, by decide, by decide⟩
  intro a ha
  simp at ha
  rcases ha with rfl | rfl | rfl | rfl <;> simp [PlainAct, Reply.params]

/-- Tie by extraction (DESIGN §4.2): the gate of `C05_gate` is the one in the source now
    (`reply_struct` and `wants_more` in /repo/varlink/src/lib.rs, read on every run). -/
theorem C05_gate_is_source (req : Request) (st : CallSt) (r : Reply) :
    replyStruct req st r = replyStructE req st r ∧
    wantsMore req = ExtractedWire.wantsMoreE req.more req.oneway req.upgrade :=
  ⟨replyStruct_is_source req st r, wantsMore_is_source req⟩

/-- over the extracted gate alone: a `continues` reply to a call without `more` is refused whatever the
    oneway flag (the refusal comes BEFORE the oneway early return: an implementation that streams to
    a oneway caller is told so), and a written reply is marked exactly when `continues` is set -/
theorem C05_source_gate_refuses_first (oneway : Bool) :
    ExtractedWire.gate true false oneway = .refuse ∧
    (∀ c w, ExtractedWire.gate c w oneway = .write → ExtractedWire.markContinues c w oneway = c) := by
  cases oneway <;> decide

end VV
