/-
C11 — the parser accepts exactly the varlink grammar, rejects duplicate definitions
and mirrors the source.

`parse` / `tryFrom` model `ParseInterface` / `IDL::try_from` (Model/Idl*.lean: the PEG rule
by rule).  `Spec.*` is the specification (Model/Idl/Spec.lean: word predicates, scanner,
LL(1) parser), written independently of the PEG functions.  `fromToken` is `IDL::from_token`.
-/
import VarlinkVerif.Model.Idl
import VarlinkVerif.Model.Idl.Spec
import VarlinkVerif.Lemmas.IdlDup
import VarlinkVerif.Lemmas.IdlIfaceName
import VarlinkVerif.Lemmas.IdlCompleteFile
import VarlinkVerif.Lemmas.IdlWF
import VarlinkVerif.Lemmas.IdlSound

namespace VV
open Idl

/-! ### lexical layer: names -/

/-- **interface names, soundness + maximal munch**: for every input, what `interface_name`
    consumes is a name of the specification (≥ 2 dot-separated elements over `[A-Za-z0-9-]`, none
    empty, none starting or ending with '-', the first starting with a letter), and the rule
    stopped where no further `.element` can follow. -/
theorem C11_interface_name_sound (s w r : Input) (h : interfaceName s = some (w, r)) :
    s = w ++ r ∧ Spec.isInterfaceName w = true ∧ dotLabelF s.length r = none :=
  interfaceNameF_sound (Nat.le_refl _) h

/-- **interface names, completeness**: every name of the specification that is not followed by
    a name character (`[A-Za-z0-9.-]`) is consumed entirely — PEG's possessive repetition agrees
    with the declarative definition on maximal runs. -/
theorem C11_interface_name_complete (w r : Input) (hw : Spec.isInterfaceName w = true)
    (hr : NoNameAhead r) : interfaceName (w ++ r) = some (w, r) :=
  interfaceNameF_complete (Nat.le_refl _) hw hr

/-- on a whole word the rule and the specification coincide -/
theorem C11_interface_name (w : Str) :
    interfaceName w = some (w, []) ↔ Spec.isInterfaceName w = true := by
  constructor
  · intro h; exact (C11_interface_name_sound w w [] h).2.1
  · intro h
    have := C11_interface_name_complete w [] h (by intro c r' e; cases e)
    simpa using this

/-- the defect fixed in /repo by d4a5d78 stays fixed: no element may end with a hyphen and
    upper-case letters are allowed in the first element -/
example : interfaceName "a-.b".toList = none ∧ Spec.isInterfaceName "a-.b".toList = false ∧
    interfaceName "aB.c".toList = some ("aB.c".toList, []) ∧ Spec.isInterfaceName "aB.c".toList = true := by
  decide

/-- **type / method / error names**: `name` consumes exactly the maximal `[A-Z][A-Za-z0-9]*` -/
theorem C11_name (s w r : Input) :
    name s = some (w, r) ↔ s = w ++ r ∧ Spec.isTypeName w = true ∧ NoAlnumAhead r := by
  constructor
  · exact name_sound
  · rintro ⟨rfl, hw, hr⟩; exact name_complete hw hr

/-- **field names**: `field_name` consumes exactly a maximal `[A-Za-z](_?[A-Za-z0-9])*` -/
theorem C11_field_name (s w r : Input) :
    fieldName s = some (w, r) ↔ s = w ++ r ∧ Spec.isFieldName w = true ∧ fieldNameStep r = none := by
  constructor
  · exact fieldNameF_sound (Nat.le_refl _)
  · rintro ⟨rfl, hw, hr⟩; exact fieldNameF_complete (Nat.le_refl _) hw hr

example : fieldName "a_b__c".toList = some ("a_b".toList, "__c".toList) := by decide

/-- the model's character classes and `trim_doc` are the specification's -/
theorem C11_classes (c : Char) (d : Str) :
    isWs c = Spec.isSpace c ∧ isEolChar c = Spec.isNewline c ∧ isAlnum c = Spec.isLetterOrDigit c ∧
    isAlpha c = Spec.isLetter c ∧ isUpper c = Spec.isUpperLetter c ∧ trimDoc d = Spec.trim d :=
  ⟨isWs_eq c, isEolChar_eq c, isAlnum_eq c, isAlpha_eq c, isUpper_eq c, trimDoc_eq d⟩

/-! ### the whole grammar -/

/-- **C11 completeness**: `Gram.FileText p s` is the declarative grammar (Model/Idl/Gram.lean: a
    relation between a text and the definition it denotes, no parsing strategy).  For EVERY text
    `s` and definition `p`: if the grammar derives `s` for `p`, the PEG accepts `s` and returns
    exactly `p` — interface name, documentation, member kinds and names in order of appearance,
    field names, types.  (Ordered choice and possessive repetition never reject or mis-parse a
    text of the grammar.) -/
theorem C11_complete (s : Input) (p : Parsed) (h : Gram.FileText p s) : parse s = some p :=
  parse_complete h

/-- **C11 soundness**: for EVERY input `s`: whatever the PEG accepts is a text of the declarative
    grammar, for exactly the definition it returns — the returned name, documentation strings,
    member kinds/names/order, field names and types are those the text denotes (the structure
    mirrors the source). -/
theorem C11_sound (s : Input) (p : Parsed) (h : parse s = some p) : Gram.FileText p s :=
  parse_sound h

/-- **C11: the parser accepts exactly the grammar** and returns exactly the denoted definition -/
theorem C11_accepts_exactly (s : Input) (p : Parsed) : parse s = some p ↔ Gram.FileText p s :=
  ⟨C11_sound s p, C11_complete s p⟩

/-- `try_from` returns a definition iff the text is in the grammar and defines no name twice;
    the definition is `from_token` of the denoted member list -/
theorem C11_tryFrom_iff (s : Input) (i : IDL) :
    tryFrom s = .ok i ↔ ∃ p, Gram.FileText p s ∧ (p.members.map (·.name)).Nodup ∧ i = fromToken p := by
  unfold tryFrom
  constructor
  · intro h
    split at h
    · rename_i p hp
      dsimp only at h
      split at h
      · rename_i he
        simp only [Outcome.ok.injEq] at h
        refine ⟨p, C11_sound s p hp, ?_, h.symm⟩
        have inv := foldInv_fromToken p
        refine Classical.not_not.mp (fun hn => ?_)
        obtain ⟨n, hn'⟩ := (isDup_iff_not_nodup p.members).mpr hn
        obtain ⟨msg, hmsg, _⟩ := inv.complete n hn'
        simp only [List.isEmpty_iff] at he
        rw [he] at hmsg; simp at hmsg
      · cases h
    · cases h
  · rintro ⟨p, hp, hnd, rfl⟩
    rw [C11_complete s p hp]
    dsimp only
    have : (fromToken p).error = [] := by
      have inv := foldInv_fromToken p
      cases he : (fromToken p).error with
      | nil => rfl
      | cons msg r =>
        obtain ⟨n, hn, _⟩ := inv.sound msg (by rw [he]; simp)
        exact absurd hnd ((isDup_iff_not_nodup _).mp ⟨n, hn⟩)
    simp [this]

/-- the grammar is unambiguous: a text denotes at most one definition -/
theorem C11_deterministic (s : Input) (p p' : Parsed) (h : Gram.FileText p s) (h' : Gram.FileText p' s) : p = p' := by
  have := (C11_complete s p h).symm.trans (C11_complete s p' h')
  simpa using this

/-- **C11 soundness, structural part**: whatever the PEG returns is a definition of the grammar's
    shape — the interface name is a name of the specification, every member name is a type name,
    every field name a field name, every documentation string is trimmed trivia, no enum is empty,
    no option wraps an option — for every input. -/
theorem C11_result_wellformed (s : Input) (p : Parsed) (h : parse s = some p) :
    Spec.isInterfaceName p.name = true ∧ IsDoc p.doc ∧ (∀ m ∈ p.members, WFMember m) ∧ p.members ≠ [] :=
  parse_wf h

/-- and it denotes itself under re-rendering: the result of an accepted text, rendered by the
    formatter at any width, is derived by the grammar and parsed back (C10) -/
theorem C11_result_denotable (s : Input) (i : IDL) (h : tryFrom s = .ok i) (max : Nat) :
    Gram.FileText (regroup i) (Fmt.multiline i 0 max) ∧ parse (Fmt.multiline i 0 max) = some (regroup i) :=
  ⟨file_layout i (wf_of_tryFrom h) max, parse_multiline i (wf_of_tryFrom h) max⟩

/-- non-vacuity of `Gram.FileText`: a small definition with a comment, CR LF and a tab -/
example : Gram.FileText ⟨"a.b".toList, "# d".toList, [⟨"T".toList, [], .typeStruct .nil⟩]⟩
    "# d\r\ninterface\ta.b\ntype T ()".toList := by
  refine ⟨"# d\r\n".toList, "\t".toList, "\ntype T ()".toList, [], by decide, ?_, by decide, ?_, by decide, by decide, ?_, Gram.Trivia.nil⟩
  · exact Gram.Trivia.comment (body := " d".toList) (e := '\r') (by decide) (by decide)
      (Gram.Trivia.newline (by decide) Gram.Trivia.nil)
  · exact Gram.Trivia.space (by decide) Gram.Trivia.nil
  · refine ⟨"\n".toList, "type T ()".toList, by decide, Or.inl ⟨[], ['\n'], by decide, by simp, Or.inl rfl⟩, ?_⟩
    refine ⟨[], " ".toList, " ".toList, Gram.Trivia.nil, by decide, Gram.Trivia.space (by decide) Gram.Trivia.nil, by decide,
      Gram.Trivia.space (by decide) Gram.Trivia.nil, by decide, ?_⟩
    refine ⟨"()".toList, by decide, ?_⟩
    simp only [Gram.StructText, Gram.TypeText]
    exact ⟨[], [], by decide, by simp [Gram.FieldsText], Gram.Trivia.nil⟩

/-! ### duplicates -/

/-- **C11 duplicates**: for every member list, `from_token` records an error iff some name is
    defined twice (across methods, types and errors); every message names a duplicated name; and
    every duplicated name is named, back-quoted, by some message. -/
theorem C11_duplicates (p : Parsed) :
    ((fromToken p).error ≠ [] ↔ ¬ (p.members.map (·.name)).Nodup) ∧
    (∀ msg ∈ (fromToken p).error, ∃ n, IsDup n p.members ∧ Mentions p.name msg n) ∧
    (∀ n, IsDup n p.members → ∃ msg ∈ (fromToken p).error, Mentions p.name msg n ∧ quoted n <:+: msg) := by
  have inv := foldInv_fromToken p
  refine ⟨?_, inv.sound, ?_⟩
  · rw [← isDup_iff_not_nodup]
    constructor
    · intro h
      obtain ⟨msg, hmsg⟩ := List.exists_mem_of_ne_nil _ h
      obtain ⟨n, hn, _⟩ := inv.sound msg hmsg
      exact ⟨n, hn⟩
    · rintro ⟨n, hn⟩ he
      obtain ⟨msg, hmsg, _⟩ := inv.complete n hn
      rw [he] at hmsg; simp at hmsg
  · intro n hn
    obtain ⟨msg, hmsg, hm⟩ := inv.complete n hn
    exact ⟨msg, hmsg, hm, quoted_infix_of_mentions hm⟩

/-- the text of `Error::Idl` (messages sorted, newline-joined, newline-terminated) contains every
    duplicated name between back quotes -/
theorem C11_duplicates_text (p : Parsed) (n : Str) (hn : IsDup n p.members) :
    quoted n <:+: idlErrorText (fromToken p) := by
  obtain ⟨msg, hmsg, _, hq⟩ := (C11_duplicates p).2.2 n hn
  have h1 : msg ∈ sortMsgs (fromToken p).error := mem_sortMsgs.mpr hmsg
  have h2 := infix_joinLines h1
  exact List.IsInfix.trans hq (List.IsInfix.trans h2 ⟨[], ['\n'], by simp [idlErrorText]⟩)

/-- `try_from` accepts iff the grammar accepts and no name is defined twice -/
theorem C11_accept_iff (s : Input) (i : IDL) :
    tryFrom s = .ok i ↔ ∃ p, parse s = some p ∧ (p.members.map (·.name)).Nodup ∧ i = fromToken p := by
  unfold tryFrom
  constructor
  · intro h
    split at h
    · rename_i p hp
      dsimp only at h
      split at h
      · rename_i he
        simp only [Outcome.ok.injEq] at h
        refine ⟨p, hp, ?_, h.symm⟩
        have := (C11_duplicates p).1
        simp only [List.isEmpty_iff] at he
        exact Classical.not_not.mp (fun hn => (this.mpr hn) he)
      · cases h
    · cases h
  · rintro ⟨p, hp, hnd, rfl⟩
    rw [hp]
    dsimp only
    have : (fromToken p).error = [] := by
      have := (C11_duplicates p).1
      exact Classical.not_not.mp (fun hne => (this.mp hne) hnd)
    simp [this]

/-- non-vacuity: a cross-kind duplicate is reported with both message shapes absent/present as in
    the code: `type Foo` then `method Foo` gives the kind-less message -/
example : (fromToken ⟨"a.b".toList, [], [⟨"Foo".toList, [], .typeStruct .nil⟩,
      ⟨"Foo".toList, [], .method .nil .nil⟩]⟩).error = [msgAny "a.b".toList "Foo".toList] := by decide

/-! ### mirror -/

/-- **C11 mirror**: for every member list the key lists are the member names per kind in source
    order, name and documentation are handed through, and — when no name is defined twice — each
    map returns, under a member's name, that member (fields, types and documentation included). -/
theorem C11_mirror (p : Parsed) :
    (fromToken p).name = p.name ∧ (fromToken p).doc = p.doc ∧
    (fromToken p).methodKeys = namesOf .method p.members ∧
    (fromToken p).typedefKeys = namesOf .typedef p.members ∧
    (fromToken p).errorKeys = namesOf .error p.members ∧
    ((p.members.map (·.name)).Nodup → ∀ m ∈ p.members,
      lookupMap m.name (match m.kind with
        | .method => (fromToken p).methods
        | .typedef => (fromToken p).typedefs
        | .error => (fromToken p).errors) = some m) := by
  have inv := foldInv_fromToken p
  refine ⟨inv.name, fromToken_doc p, inv.mkeys, inv.tkeys, inv.ekeys, ?_⟩
  intro hnd m hm
  have hl := lastOf_of_nodup hnd hm
  cases hk : m.kind with
  | method => simp only; rw [inv.mmap, ← hk]; exact hl
  | typedef => simp only; rw [inv.tmap, ← hk]; exact hl
  | error => simp only; rw [inv.emap, ← hk]; exact hl

end VV
