/-
C11 — the parser accepts exactly the varlink grammar, rejects duplicate definitions
and mirrors the source.

`parse` / `tryFrom` model `ParseInterface` / `IDL::try_from` (Model/Idl*.lean: the PEG rule
by rule).  `Spec.*` is the specification (Model/Idl/Spec.lean: word predicates, scanner,
LL(1) parser), written independently of the PEG functions.  `fromToken` is `IDL::from_token`.
-/
import VarlinkVerif.Model.Idl
import VarlinkVerif.Model.Idl.Spec
import VarlinkVerif.Lemmas.IdlDup
import VarlinkVerif.Lemmas.IdlIfaceName

namespace VV
open Idl

/-! ### lexical layer: names -/

/-- **interface names, soundness + maximal munch**: for every input, what `interface_name`
    consumes is a name of the specification (≥ 2 dot-separated elements over `[A-Za-z0-9-]`, none
    empty, none starting or ending with '-', the first starting with a letter), and the rule
    stopped where no further `.element` can follow. -/
theorem C11_interface_name_sound (s w r : Input) (h : interfaceName s = some (w, r)) :
    s = w ++ r ∧ Spec.isInterfaceName w = true ∧ dotLabelF s.length r = none :=
  interfaceNameF_sound (Nat.le_refl _) h

/-- **interface names, completeness**: every name of the specification that is not followed by
    a name character (`[A-Za-z0-9.-]`) is consumed entirely — PEG's possessive repetition agrees
    with the declarative definition on maximal runs. -/
theorem C11_interface_name_complete (w r : Input) (hw : Spec.isInterfaceName w = true)
    (hr : NoNameAhead r) : interfaceName (w ++ r) = some (w, r) :=
  interfaceNameF_complete (Nat.le_refl _) hw hr

/-- on a whole word the rule and the specification coincide -/
theorem C11_interface_name (w : Str) :
    interfaceName w = some (w, []) ↔ Spec.isInterfaceName w = true := by
  constructor
  · intro h; exact (C11_interface_name_sound w w [] h).2.1
  · intro h
    have := C11_interface_name_complete w [] h (by intro c r' e; cases e)
    simpa using this

/-- the defect fixed in /repo by d4a5d78 stays fixed: no element may end with a hyphen and
    upper-case letters are allowed in the first element -/
example : interfaceName "a-.b".toList = none ∧ Spec.isInterfaceName "a-.b".toList = false ∧
    interfaceName "aB.c".toList = some ("aB.c".toList, []) ∧ Spec.isInterfaceName "aB.c".toList = true := by
  decide

/-- **type / method / error names**: `name` consumes exactly the maximal `[A-Z][A-Za-z0-9]*` -/
theorem C11_name (s w r : Input) :
    name s = some (w, r) ↔ s = w ++ r ∧ Spec.isTypeName w = true ∧ NoAlnumAhead r := by
  constructor
  · exact name_sound
  · rintro ⟨rfl, hw, hr⟩; exact name_complete hw hr

/-- **field names**: `field_name` consumes exactly a maximal `[A-Za-z](_?[A-Za-z0-9])*` -/
theorem C11_field_name (s w r : Input) :
    fieldName s = some (w, r) ↔ s = w ++ r ∧ Spec.isFieldName w = true ∧ fieldNameStep r = none := by
  constructor
  · exact fieldNameF_sound (Nat.le_refl _)
  · rintro ⟨rfl, hw, hr⟩; exact fieldNameF_complete (Nat.le_refl _) hw hr

example : fieldName "a_b__c".toList = some ("a_b".toList, "__c".toList) := by decide

/-- the model's character classes and `trim_doc` are the specification's -/
theorem C11_classes (c : Char) (d : Str) :
    isWs c = Spec.isSpace c ∧ isEolChar c = Spec.isNewline c ∧ isAlnum c = Spec.isLetterOrDigit c ∧
    isAlpha c = Spec.isLetter c ∧ isUpper c = Spec.isUpperLetter c ∧ trimDoc d = Spec.trim d :=
  ⟨isWs_eq c, isEolChar_eq c, isAlnum_eq c, isAlpha_eq c, isUpper_eq c, trimDoc_eq d⟩

/-! ### duplicates -/

/-- **C11 duplicates**: for every member list, `from_token` records an error iff some name is
    defined twice (across methods, types and errors); every message names a duplicated name; and
    every duplicated name is named, back-quoted, by some message. -/
theorem C11_duplicates (p : Parsed) :
    ((fromToken p).error ≠ [] ↔ ¬ (p.members.map (·.name)).Nodup) ∧
    (∀ msg ∈ (fromToken p).error, ∃ n, IsDup n p.members ∧ Mentions p.name msg n) ∧
    (∀ n, IsDup n p.members → ∃ msg ∈ (fromToken p).error, Mentions p.name msg n ∧ quoted n <:+: msg) := by
  have inv := foldInv_fromToken p
  refine ⟨?_, inv.sound, ?_⟩
  · rw [← isDup_iff_not_nodup]
    constructor
    · intro h
      obtain ⟨msg, hmsg⟩ := List.exists_mem_of_ne_nil _ h
      obtain ⟨n, hn, _⟩ := inv.sound msg hmsg
      exact ⟨n, hn⟩
    · rintro ⟨n, hn⟩ he
      obtain ⟨msg, hmsg, _⟩ := inv.complete n hn
      rw [he] at hmsg; simp at hmsg
  · intro n hn
    obtain ⟨msg, hmsg, hm⟩ := inv.complete n hn
    exact ⟨msg, hmsg, hm, quoted_infix_of_mentions hm⟩

/-- the text of `Error::Idl` (messages sorted, newline-joined, newline-terminated) contains every
    duplicated name between back quotes -/
theorem C11_duplicates_text (p : Parsed) (n : Str) (hn : IsDup n p.members) :
    quoted n <:+: idlErrorText (fromToken p) := by
  obtain ⟨msg, hmsg, _, hq⟩ := (C11_duplicates p).2.2 n hn
  have h1 : msg ∈ sortMsgs (fromToken p).error := mem_sortMsgs.mpr hmsg
  have h2 := infix_joinLines h1
  exact List.IsInfix.trans hq (List.IsInfix.trans h2 ⟨[], ['\n'], by simp [idlErrorText]⟩)

/-- `try_from` accepts iff the grammar accepts and no name is defined twice -/
theorem C11_accept_iff (s : Input) (i : IDL) :
    tryFrom s = .ok i ↔ ∃ p, parse s = some p ∧ (p.members.map (·.name)).Nodup ∧ i = fromToken p := by
  unfold tryFrom
  constructor
  · intro h
    split at h
    · rename_i p hp
      dsimp only at h
      split at h
      · rename_i he
        simp only [Outcome.ok.injEq] at h
        refine ⟨p, hp, ?_, h.symm⟩
        have := (C11_duplicates p).1
        simp only [List.isEmpty_iff] at he
        exact Classical.not_not.mp (fun hn => (this.mpr hn) he)
      · cases h
    · cases h
  · rintro ⟨p, hp, hnd, rfl⟩
    rw [hp]
    dsimp only
    have : (fromToken p).error = [] := by
      have := (C11_duplicates p).1
      exact Classical.not_not.mp (fun hne => (this.mp hne) hnd)
    simp [this]

/-- non-vacuity: a cross-kind duplicate is reported with both message shapes absent/present as in
    the code: `type Foo` then `method Foo` gives the kind-less message -/
example : (fromToken ⟨"a.b".toList, [], [⟨"Foo".toList, [], .typeStruct .nil⟩,
      ⟨"Foo".toList, [], .method .nil .nil⟩]⟩).error = [msgAny "a.b".toList "Foo".toList] := by decide

/-! ### mirror -/

/-- **C11 mirror**: for every member list the key lists are the member names per kind in source
    order, name and documentation are handed through, and — when no name is defined twice — each
    map returns, under a member's name, that member (fields, types and documentation included). -/
theorem C11_mirror (p : Parsed) :
    (fromToken p).name = p.name ∧ (fromToken p).doc = p.doc ∧
    (fromToken p).methodKeys = namesOf .method p.members ∧
    (fromToken p).typedefKeys = namesOf .typedef p.members ∧
    (fromToken p).errorKeys = namesOf .error p.members ∧
    ((p.members.map (·.name)).Nodup → ∀ m ∈ p.members,
      lookupMap m.name (match m.kind with
        | .method => (fromToken p).methods
        | .typedef => (fromToken p).typedefs
        | .error => (fromToken p).errors) = some m) := by
  have inv := foldInv_fromToken p
  refine ⟨inv.name, fromToken_doc p, inv.mkeys, inv.tkeys, inv.ekeys, ?_⟩
  intro hnd m hm
  have hl := lastOf_of_nodup hnd hm
  cases hk : m.kind with
  | method => simp only; rw [inv.mmap, ← hk]; exact hl
  | typedef => simp only; rw [inv.tmap, ← hk]; exact hl
  | error => simp only; rw [inv.emap, ← hk]; exact hl

end VV
