/-
C13 — concurrent connections are served independently.

What a Lean model can say: in the model the per-connection worker shares nothing
with other workers except the immutable handler (exactly what the code shares
by construction: every job owns its stream, reader, writer and upgraded-interface
state, and `handle` keeps its state on its own stack).  The theorems state that
under this sharing discipline a connection's replies are a function of its own
byte stream only — independent of how its segments interleave with those of any
number of other connections and of how its own stream is segmented.  Whether the
real threads share anything else (a data race, a shared buffer) cannot be
exhibited by the model: that part is observed by the `listen` suite (2..64 real
concurrent clients per case, each compared with its own sequential expectation).
-/
import VarlinkVerif.Model.ListenWorker
import VarlinkVerif.Lemmas.Wire
import VarlinkVerif.Props.C14

namespace VV

theorem received_append_other (evs : List NetEvent) (e : NetEvent) (conn : Nat) (h : e.conn ≠ conn) :
    received (evs ++ [e]) conn = received evs conn := by
  have hb : (e.conn == conn) = false := by simpa using h
  simp [received, List.filter_append, hb]

/-- **C13 non-interference (one step)**: traffic on another connection does not
    change anything a connection observes. -/
theorem C13_other_traffic_is_invisible (c : Consts) (svc : Service) (dec : Bytes → Frame)
    (evs : List NetEvent) (e : NetEvent) (conn : Nat) (h : e.conn ≠ conn) :
    serveAll c svc dec (evs ++ [e]) conn = serveAll c svc dec evs conn := by
  simp [serveAll, received_append_other evs e conn h]

/-- **C13 non-interference**: two global histories that agree on connection
    `conn` (whatever else happens in them, in whatever order) give `conn` the
    same replies, the same upgrade hand-over and the same closing behaviour. -/
theorem C13_noninterference (c : Consts) (svc : Service) (dec : Bytes → Frame)
    (evs1 evs2 : List NetEvent) (conn : Nat) (h : received evs1 conn = received evs2 conn) :
    serveAll c svc dec evs1 conn = serveAll c svc dec evs2 conn := by
  simp [serveAll, h]

/-- **C13 own order, own replies**: what a connection gets is `serve` on the
    frames of its own byte stream, in its own order, whatever the segmentation
    and the interleaving with other connections. -/
theorem C13_own_stream_only (c : Consts) (svc : Service) (dec : Bytes → Frame)
    (evs : List NetEvent) (conn : Nat) (hne : NoEmpty (received evs conn)) :
    (serveAll c svc dec evs conn).out =
      (serve c svc ((frames (received evs conn).flatten).1.map dec)).groups.flatten := by
  have s := handle_spec c svc dec (received evs conn) hne
  simp only [serveAll, ListenWorker.run]
  cases hs : (handle c svc dec (received evs conn)).status <;> simp [s.1]

/-- **C13 upgrade through the listen loop**: after an upgrade the upgraded
    handler is given exactly the bytes that follow the upgrading request — the
    part `handle` had already buffered first, then the rest of the socket. -/
theorem C13_upgrade_hands_over_all (c : Consts) (svc : Service) (dec : Bytes → Frame)
    (reads : List Bytes) (hne : NoEmpty reads) (i : String)
    (hu : (ListenWorker.run c svc dec reads).upgraded = some i) :
    (ListenWorker.run c svc dec reads).handedOver =
      afterFrames (serve c svc ((frames reads.flatten).1.map dec)).consumed reads.flatten := by
  have s := handle_spec c svc dec reads hne
  simp only [ListenWorker.run] at hu ⊢
  cases hs : (handle c svc dec reads).status with
  | eof => simp [hs] at hu
  | err => simp [hs] at hu
  | upgraded j =>
    simp only [hs]
    have hst := s.2.1
    rw [hs] at hst
    exact s.2.2.2.2 j hst.symm

/-- **C13 no blocking by others (safety form)**: as long as fewer than `max`
    connections are in service, a newly accepted connection is not left waiting
    behind the others — this is C14's invariant, restated. -/
theorem C13_not_blocked_by_others (initial max : Nat) (hi : 0 < initial) (steps : List PStep) :
    ¬ Pool.Stranded (Pool.run (Pool.init initial max) steps) :=
  C14_no_stranding initial max hi steps

/-- non-vacuity: two connections, interleaved segment by segment -/
example :
    let evs : List NetEvent := [⟨0, [1]⟩, ⟨1, [7, 7]⟩, ⟨0, [2, 0]⟩, ⟨1, [0]⟩]
    received evs 0 = [[1], [2, 0]] ∧ received evs 1 = [[7, 7], [0]] := by decide

end VV
