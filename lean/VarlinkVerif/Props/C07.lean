/-
C07 — a client connection carries one call at a time and reports outcomes
faithfully; plus the client halves of C04 (`oneway()` sends and never reads)
and C05 (iterating a `more` call).  All over Model.Client.

Every theorem quantifies over all peers `p : Peer` (what the service sends back
for which request), all wires (request log, frames under way, closed or not,
any write budget) and all call objects unless a hypothesis says otherwise.
-/
import VarlinkVerif.Lemmas.Client

namespace VV
open Client

/-! ### outcome -/

/-- **C07 (outcome, success)**: for every reply `r`, the outcome handed to the
    caller is a success exactly when `r` has no `error` member. -/
theorem C07_outcome_ok_iff (r : Reply) : (∃ v, replyRes r = .ok v) ↔ r.error = none := by
  unfold replyRes
  cases he : r.error with
  | none => cases hp : r.parameters <;> simp
  | some e => simp

/-- **C07 (outcome, error)**: … and otherwise it is the error `kindOf r`. -/
theorem C07_outcome_err (r : Reply) (h : r.error ≠ none) : replyRes r = .err (kindOf r) := by
  unfold replyRes
  cases he : r.error with
  | none => exact absurd he h
  | some e => simp

/-- a successful reply delivers its parameters (an absent member reads as `{}`) -/
theorem C07_outcome_value (r : Reply) (h : r.error = none) :
    replyRes r = .ok (r.parameters.getD (.obj [])) := by
  unfold replyRes
  cases hp : r.parameters <;> simp [h]

/-- **C07 (outcome of `call`)**: for every peer, every idle connection, every
    fresh call object and every wire on which the write succeeds: if the next
    frame that comes back is the reply `r` (whatever `r` is), `call()` returns
    exactly the outcome of `r`. -/
theorem C07_outcome (p : Peer) (s : CS) (meth : String) (params : Json) (r : Reply) (q : List Msg)
    (hm : s.call.method = some meth) (hq : s.call.request = some params)
    (hi : s.conn.idle = true) (hw : s.wire.canWrite = true)
    (hnext : (s.wire.accept p (mkRequest meth params false false false)).queue = .reply r :: q) :
    ∃ s', call p s = some (replyRes r, s') ∧
      ((∃ v, replyRes r = .ok v) ↔ r.error = none) ∧
      (r.error ≠ none → replyRes r = .err (kindOf r)) := by
  unfold call
  rw [send_ok p false false false s meth params hm hq hi hw]
  simp only [Bool.false_eq_true, if_false]
  rw [recv_reply _ r q rfl rfl hnext]
  exact ⟨_, rfl, C07_outcome_ok_iff r, C07_outcome_err r⟩

/-- the four standard errors carry the named member of their parameters … -/
theorem C07_kind_standard (c : Option Bool) (ps : Option Json) :
    kindOf { continues := c, error := some sInterfaceNotFound, parameters := ps } = .interfaceNotFound (paramString "interface" ps) ∧
    kindOf { continues := c, error := some sInvalidParameter, parameters := ps } = .invalidParameter (paramString "parameter" ps) ∧
    kindOf { continues := c, error := some sMethodNotFound, parameters := ps } = .methodNotFound (paramString "method" ps) ∧
    kindOf { continues := c, error := some sMethodNotImplemented, parameters := ps } = .methodNotImplemented (paramString "method" ps) := by
  refine ⟨?_, ?_, ?_, ?_⟩ <;> simp [kindOf, sInterfaceNotFound, sInvalidParameter, sMethodNotFound, sMethodNotImplemented]

/-- … which is the string found under that name (in an object, other members
    ignored), or the single element of a one-element array, and the empty
    string in every other case -/
theorem C07_kind_parameter (member v : String) (before after : List (String × Json))
    (hb : ∀ kv ∈ before, kv.1 ≠ member) :
    paramString member (some (.obj (before ++ (member, .str v) :: after))) = v ∧
    paramString member (some (.arr [.str v])) = v ∧
    paramString member none = "" ∧ paramString member (some .null) = "" ∧
    paramString member (some (.obj before)) = "" := by
  have look : ∀ (l : List (String × Json)) (rest : List (String × Json)), (∀ kv ∈ l, kv.1 ≠ member) →
      Json.lookup member (l ++ rest) = Json.lookup member rest := by
    intro l
    induction l with
    | nil => intro rest _; rfl
    | cons x xs ih =>
      intro rest h
      obtain ⟨k, j⟩ := x
      have hk : k ≠ member := h (k, j) (by simp)
      simp [Json.lookup, hk]
      exact ih rest (fun kv hkv => h kv (by simp [hkv]))
  refine ⟨?_, rfl, rfl, rfl, ?_⟩
  · simp [paramString, look before _ hb, Json.lookup]
  · have := look before [] hb
    simp at this
    simp [paramString, this, Json.lookup]

/-- any other error name keeps the whole reply -/
theorem C07_kind_other (r : Reply)
    (h1 : r.error ≠ some sInterfaceNotFound) (h2 : r.error ≠ some sInvalidParameter)
    (h3 : r.error ≠ some sMethodNotFound) (h4 : r.error ≠ some sMethodNotImplemented) :
    kindOf r = .errorReply r := by
  simp [kindOf, h1, h2, h3, h4]

/-! ### busy, once only, reusable -/

/-- **C07 (busy)**: while the stream is not in the connection's slots, every
    kind of send (`call`, `more`, `oneway`, `upgrade`) fails with
    `ConnectionBusy` (or `MethodCalledAlready` for a spent object) and the wire
    is untouched: not a byte is written, nothing is read. -/
theorem C07_busy_writes_nothing (p : Peer) (ow mo up : Bool) (s : CS) (h : s.conn.idle = false) :
    (send p ow mo up s).2.wire = s.wire ∧ (send p ow mo up s).2.conn = s.conn ∧
    ((send p ow mo up s).1 = some .connectionBusy ∨ (send p ow mo up s).1 = some .methodCalledAlready) ∧
    (s.call.fresh → (send p ow mo up s).1 = some .connectionBusy) := by
  obtain ⟨h1, h2⟩ := send_not_idle p ow mo up s h
  refine ⟨by rw [h1], by rw [h1], h2, ?_⟩
  rintro ⟨meth, params, hm, hq⟩
  unfold send
  have h' : (!s.conn.reader || !s.conn.writer) = true := by
    simp [Conn.idle] at h
    cases hr : s.conn.reader <;> cases hw : s.conn.writer <;> simp_all
  simp [hm, hq, h']

/-- the same for the public operations -/
theorem C07_busy_operations (p : Peer) (s : CS) (h : s.conn.idle = false) (hf : s.call.fresh) :
    (∃ s', call p s = some (.err .connectionBusy, s') ∧ s'.wire = s.wire) ∧
    (∃ s', upgrade p s = some (.err .connectionBusy, s') ∧ s'.wire = s.wire) ∧
    (∃ s', oneway p s = (.err .connectionBusy, s') ∧ s'.wire = s.wire) ∧
    (∃ s', more p s = (.err .connectionBusy, s') ∧ s'.wire = s.wire) := by
  have key : ∀ (ow mo up : Bool) (s : CS), s.conn.idle = false → s.call.fresh →
      ∃ s', send p ow mo up s = (some .connectionBusy, s') ∧ s'.wire = s.wire := by
    intro ow mo up s h hf
    obtain ⟨hw, _, _, hb⟩ := C07_busy_writes_nothing p ow mo up s h
    refine ⟨(send p ow mo up s).2, ?_, hw⟩
    have := hb hf
    exact Prod.ext this rfl
  refine ⟨?_, ?_, ?_, ?_⟩
  · obtain ⟨s', e, hw⟩ := key false false false s h hf
    exact ⟨s', by simp [call, e], hw⟩
  · obtain ⟨s', e, hw⟩ := key false false true s h hf
    exact ⟨s', by simp [upgrade, e], hw⟩
  · obtain ⟨s', e, hw⟩ := key true false false s h hf
    exact ⟨s', by simp [oneway, e], hw⟩
  · have hf' : ({ s with call := { s.call with continues := true } } : CS).call.fresh := hf
    obtain ⟨s', e, hw⟩ := key false true false { s with call := { s.call with continues := true } } h hf'
    exact ⟨s', by simp [more, e], hw⟩

/-- **C07 (once)**: whatever a send did (written, busy, failed), the call object
    is spent afterwards, and every later send on it fails with
    `MethodCalledAlready` without touching wire or connection — also after any
    number of `recv`s in between (they never refill method/request). -/
theorem C07_send_once (p : Peer) (ow mo up ow' mo' up' : Bool) (s : CS) :
    let s1 := (send p ow mo up s).2
    s1.call.method = none ∧ s1.call.request = none ∧
    ∀ s2 : CS, s2.call.method = none →
      (send p ow' mo' up' s2).1 = some .methodCalledAlready ∧
      (send p ow' mo' up' s2).2.wire = s2.wire ∧ (send p ow' mo' up' s2).2.conn = s2.conn := by
  refine ⟨(send_spends p ow mo up s).1, (send_spends p ow mo up s).2, ?_⟩
  intro s2 h
  rw [send_spent p ow' mo' up' s2 (Or.inl h)]
  simp

/-- `recv` never gives method/request back -/
theorem recv_keeps_spent (s : CS) (r : Res) (s' : CS) (h : recv s = some (r, s'))
    (hm : s.call.method = none) : s'.call.method = none := by
  unfold recv at h
  split at h
  · simp at h; rw [← h.2]; exact hm
  · split at h
    · split at h
      · simp at h; rw [← h.2]; exact hm
      · simp at h
    · simp at h; rw [← h.2]; exact hm
    · simp at h; rw [← h.2]; exact hm
    · split at h <;> (simp at h; rw [← h.2]; exact hm)

/-- **C07 (reusable)**: when a call that owns the stream reads a reply that
    is final (`continues` absent or false — success or error alike), the stream
    is back in the connection, so the next fresh call is sent (not refused). -/
theorem C07_reusable_after_final (p : Peer) (s : CS) (r : Reply) (q : List Msg)
    (hr : s.call.reader = true) (hw : s.call.writer = true)
    (hq : s.wire.queue = .reply r :: q) (hfin : r.continues ≠ some true) :
    ∃ s', recv s = some (replyRes r, s') ∧ s'.conn.idle = true ∧ s'.call.reader = false ∧ s'.call.writer = false ∧
      s'.call.continues = false ∧ s'.wire.queue = q ∧
      ∀ (m : MCall) (ow mo up : Bool), m.fresh → s'.wire.canWrite = true →
        (send p ow mo up { s' with call := m }).1 = none := by
  rw [recv_reply s r q hr hw hq]
  simp only [hfin, if_false]
  refine ⟨_, rfl, rfl, rfl, rfl, rfl, rfl, ?_⟩
  rintro m ow mo up ⟨meth, params, hm, hq'⟩ hcw
  have := send_ok p ow mo up ⟨⟨true, true⟩, m, { s.wire with queue := q }⟩ meth params hm hq' rfl hcw
  exact congrArg Prod.fst this

/-! ### C04, client half -/

/-- **C04 (client)**: `oneway()` on an idle connection performs exactly one
    write (the request, flagged `oneway`), reads nothing (the frames under way
    are exactly those before plus whatever the peer adds), and leaves both
    slots in the connection: the reader never leaves it. -/
theorem C04_client_oneway (p : Peer) (s : CS) (meth : String) (params : Json)
    (hm : s.call.method = some meth) (hq : s.call.request = some params)
    (hi : s.conn.idle = true) (hw : s.wire.canWrite = true) :
    ∃ s', oneway p s = (.unit, s') ∧
      s'.wire.log = s.wire.log ++ [mkRequest meth params true false false] ∧
      (mkRequest meth params true false false).oneway = some true ∧
      (∃ added, s'.wire.queue = s.wire.queue ++ added) ∧
      s'.conn = { reader := true, writer := true } ∧
      s'.call.reader = s.call.reader := by
  unfold oneway
  rw [send_ok p true false false s meth params hm hq hi hw]
  refine ⟨_, rfl, ?_, rfl, ?_, rfl, rfl⟩
  · simp [Wire.accept]
  · exact ⟨_, by simp [Wire.accept]; rfl⟩

/-- in every state whatsoever `oneway()` consumes no frame and does not move the reader -/
theorem C04_client_oneway_never_reads (p : Peer) (s : CS) :
    (∃ added, (oneway p s).2.wire.queue = s.wire.queue ++ added) ∧
    (oneway p s).2.conn.reader = s.conn.reader ∧ (oneway p s).2.call.reader = s.call.reader := by
  have key : (∃ added, (send p true false false s).2.wire.queue = s.wire.queue ++ added) ∧
      (send p true false false s).2.conn.reader = s.conn.reader ∧
      (send p true false false s).2.call.reader = s.call.reader := by
    by_cases hf : s.call.method = none ∨ s.call.request = none
    · rw [send_spent p true false false s hf]
      exact ⟨⟨[], by simp⟩, rfl, rfl⟩
    · have hm : ∃ meth, s.call.method = some meth := by
        cases h : s.call.method with
        | none => exact absurd (Or.inl h) hf
        | some m => exact ⟨m, rfl⟩
      have hq : ∃ params, s.call.request = some params := by
        cases h : s.call.request with
        | none => exact absurd (Or.inr h) hf
        | some m => exact ⟨m, rfl⟩
      obtain ⟨meth, hm⟩ := hm
      obtain ⟨params, hq⟩ := hq
      cases hi : s.conn.idle with
      | false =>
        rw [(send_not_idle p true false false s hi).1]
        exact ⟨⟨[], by simp⟩, rfl, rfl⟩
      | true =>
        have hr : s.conn.reader = true := by
          simp [Conn.idle] at hi; exact hi.1
        cases hw : s.wire.canWrite with
        | true =>
          rw [send_ok p true false false s meth params hm hq hi hw]
          refine ⟨⟨_, by simp [Wire.accept]; rfl⟩, by simp [hr], by simp [MCall.spent]⟩
        | false =>
          rw [send_wfail p true false false s meth params hm hq hi hw]
          exact ⟨⟨[], by simp⟩, by simp [hr], by simp [MCall.spent]⟩
  unfold oneway
  split <;> (rename_i e; rw [e] at key; exact key)

/-! ### C05, client half -/

/-- **C05 (client iteration)**: for every reply stream `r₁ … r_k` (each
    `continues: true`; any `k`, results or errors alike) followed by a final
    reply `f` (`continues` absent or false), sent by the peer in answer to the
    `more` request: `more()` succeeds and takes the stream; the first `k`
    `next()`s yield the outcomes of `r₁ … r_k` in order while the connection
    stays busy; the `k+1`-th yields the outcome of `f` and puts the stream back
    (both slots present, nothing left under way); every further `next()` yields
    `None` and changes nothing; and a fresh call is then sent, not refused. -/
theorem C05_iteration (p : Peer) (s : CS) (meth : String) (params : Json) (rs : List Reply) (f : Reply)
    (hm : s.call.method = some meth) (hq : s.call.request = some params)
    (hi : s.conn.idle = true) (hw : s.wire.canWrite = true)
    (hempty : s.wire.queue = []) (hopen : s.wire.closed = false)
    (hpeer : (p s.wire.log (mkRequest meth params false true false)).1 = rs.map Msg.reply ++ [.reply f])
    (hall : ∀ r ∈ rs, r.continues = some true) (hf : f.continues ≠ some true) :
    ∃ s0 sk s1,
      more p s = (.unit, s0) ∧ s0.conn.idle = false ∧
      s0.wire.log = s.wire.log ++ [mkRequest meth params false true false] ∧
      nexts rs.length s0 = some (rs.map replyRes, sk) ∧ sk.conn.idle = false ∧
      nexts (rs.length + 1) s0 = some (rs.map replyRes ++ [replyRes f], s1) ∧
      s1.conn = { reader := true, writer := true } ∧ s1.wire.queue = [] ∧ s1.wire.log = s0.wire.log ∧
      (∀ n, nexts n s1 = some (List.replicate n .none, s1)) ∧
      (∀ (m : MCall) (ow mo up : Bool), m.fresh → s1.wire.canWrite = true →
        (send p ow mo up { s1 with call := m }).1 = none) := by
  have hsend := send_ok p false true false { s with call := { s.call with continues := true } } meth params hm hq hi hw
  have hqueue : (s.wire.accept p (mkRequest meth params false true false)).queue =
      rs.map Msg.reply ++ [.reply f] := by
    simp [Wire.accept, hempty, hopen, hpeer]
  simp only [Bool.false_eq_true, if_false] at hsend
  let s0 : CS :=
    { conn := { reader := false, writer := false },
      call := { ({ s.call with continues := true } : MCall).spent with reader := true, writer := true },
      wire := s.wire.accept p (mkRequest meth params false true false) }
  have hmore : more p s = (.unit, s0) := by simp only [more]; rw [hsend]
  have h1 := nexts_continues rs [.reply f] s0 rfl rfl rfl hqueue hall
  have h2 := nexts_stream rs f [] s0 rfl rfl rfl hqueue hall hf
  refine ⟨s0, _, _, hmore, rfl, by simp [s0, Wire.accept], h1, rfl, h2, rfl, rfl, rfl, nexts_ended _ rfl, ?_⟩
  rintro m ow mo up ⟨meth', params', hm', hq'⟩ hcw
  have := send_ok p ow mo up ⟨⟨true, true⟩, m, { s0.wire with queue := [] }⟩ meth' params' hm' hq' rfl hcw
  exact congrArg Prod.fst this

/-- non-vacuity of `C05_iteration` and `C07_outcome`: a concrete peer, two
    `continues` replies and a final error -/
example :
    let p : Peer := fun _ _ => ([.reply { continues := some true, parameters := some (.int 1) },
                                 .reply { continues := some true, parameters := some (.int 2) },
                                 .reply { error := some "org.example.Done" }], false)
    let s : CS := { conn := {}, call := MCall.new "org.example.Stream" .null, wire := {} }
    ∃ s0, more p s = (.unit, s0) ∧
      (nexts 4 s0).map (·.1) = some [.ok (.int 1), .ok (.int 2),
        .err (.errorReply { error := some "org.example.Done" }), .none] := by
  exact ⟨_, rfl, by decide⟩

end VV
