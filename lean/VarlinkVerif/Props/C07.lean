/-
C07 — a client connection carries one call at a time and reports outcomes
faithfully; plus the client halves of C04 (`oneway()` sends and never reads)
and C05 (iterating a `more` call).  All over Model.Client.

Every theorem quantifies over all peers `p : Peer` (what the service sends back
for which request), all wires (request log, frames under way, closed or not,
any write budget) and all call objects unless a hypothesis says otherwise.
-/
import VarlinkVerif.Lemmas.Client
import VarlinkVerif.Lemmas.ClientThreads

namespace VV
open Client

/-! ### outcome -/

/-- **C07 (outcome, success)**: for every reply `r` and every reply type
    (typed decoder `dec`), the outcome handed to the caller is a success only
    when `r` has no `error` member; and when it has none, it is a success
    exactly when the parameters decode into the reply type — for the untyped
    client (`MReply = Value`, `decValue`) that is always. -/
theorem C07_outcome_ok_iff (dec : Decoder) (r : Reply) :
    ((∃ v, replyRes dec r = .ok v) → r.error = none) ∧
    (r.error = none → ((∃ v, replyRes dec r = .ok v) ↔ (dec (r.parameters.getD (.obj []))).isSome)) ∧
    ((∃ v, replyRes decValue r = .ok v) ↔ r.error = none) := by
  unfold replyRes
  cases he : r.error with
  | none =>
    refine ⟨fun _ => rfl, fun _ => ?_, ?_⟩
    · cases hd : dec (r.parameters.getD (.obj [])) <;> simp
    · simp [decValue]
  | some e => simp

/-- **C07 (outcome, error)**: … and a reply with an `error` member is the error `kindOf r`,
    whatever the reply type. -/
theorem C07_outcome_err (dec : Decoder) (r : Reply) (h : r.error ≠ none) : replyRes dec r = .err (kindOf r) := by
  unfold replyRes
  cases he : r.error with
  | none => exact absurd he h
  | some e => simp

/-- a successful reply delivers its parameters (an absent member reads as `{}`), decoded -/
theorem C07_outcome_value (dec : Decoder) (r : Reply) (v : Json) (h : r.error = none)
    (hd : dec (r.parameters.getD (.obj [])) = some v) :
    replyRes dec r = .ok v ∧ replyRes decValue r = .ok (r.parameters.getD (.obj [])) := by
  unfold replyRes
  simp [h, hd, decValue]

/-- **C07 (outcome of `call`)**: for every peer, every reply type, every idle
    connection, every fresh call object and every wire on which the write
    succeeds: if the next frame that comes back is the reply `r` (whatever `r`
    is), `call()` returns exactly the outcome of `r`. -/
theorem C07_outcome (p : Peer) (dec : Decoder) (s : CS) (meth : String) (params : Json) (r : Reply) (q : List Msg)
    (hm : s.call.method = some meth) (hq : s.call.request = some params) (hu : s.call.unser = false)
    (hi : s.conn.idle = true) (hw : s.wire.canWrite = true)
    (hnext : (s.wire.accept p (mkRequest meth params false false false)).queue = .reply r :: q) :
    ∃ s', call p dec s = some (replyRes dec r, s') ∧
      ((∃ v, replyRes dec r = .ok v) → r.error = none) ∧
      (r.error ≠ none → replyRes dec r = .err (kindOf r)) := by
  unfold call
  rw [send_ok p false false false s meth params hm hq hu hi hw]
  simp only [Bool.false_eq_true, if_false]
  rw [recv_reply dec _ r q rfl rfl hnext]
  exact ⟨_, rfl, (C07_outcome_ok_iff dec r).1, C07_outcome_err dec r⟩

/-- the four standard errors carry the named member of their parameters … -/
theorem C07_kind_standard (c : Option Bool) (ps : Option Json) :
    kindOf { continues := c, error := some sInterfaceNotFound, parameters := ps } = .interfaceNotFound (paramString "interface" ps) ∧
    kindOf { continues := c, error := some sInvalidParameter, parameters := ps } = .invalidParameter (paramString "parameter" ps) ∧
    kindOf { continues := c, error := some sMethodNotFound, parameters := ps } = .methodNotFound (paramString "method" ps) ∧
    kindOf { continues := c, error := some sMethodNotImplemented, parameters := ps } = .methodNotImplemented (paramString "method" ps) := by
  refine ⟨?_, ?_, ?_, ?_⟩ <;> simp [kindOf, sInterfaceNotFound, sInvalidParameter, sMethodNotFound, sMethodNotImplemented]

/-- … which is the string found under that name (in an object, other members
    ignored), or the single element of a one-element array, and the empty
    string in every other case -/
theorem C07_kind_parameter (member v : String) (before after : List (String × Json))
    (hb : ∀ kv ∈ before, kv.1 ≠ member) :
    paramString member (some (.obj (before ++ (member, .str v) :: after))) = v ∧
    paramString member (some (.arr [.str v])) = v ∧
    paramString member none = "" ∧ paramString member (some .null) = "" ∧
    paramString member (some (.obj before)) = "" := by
  have look : ∀ (l : List (String × Json)) (rest : List (String × Json)), (∀ kv ∈ l, kv.1 ≠ member) →
      Json.lookup member (l ++ rest) = Json.lookup member rest := by
    intro l
    induction l with
    | nil => intro rest _; rfl
    | cons x xs ih =>
      intro rest h
      obtain ⟨k, j⟩ := x
      have hk : k ≠ member := h (k, j) (by simp)
      simp [Json.lookup, hk]
      exact ih rest (fun kv hkv => h kv (by simp [hkv]))
  refine ⟨?_, rfl, rfl, rfl, ?_⟩
  · simp [paramString, look before _ hb, Json.lookup]
  · have := look before [] hb
    simp at this
    simp [paramString, this, Json.lookup]

/-- any other error name keeps the whole reply -/
theorem C07_kind_other (r : Reply)
    (h1 : r.error ≠ some sInterfaceNotFound) (h2 : r.error ≠ some sInvalidParameter)
    (h3 : r.error ≠ some sMethodNotFound) (h4 : r.error ≠ some sMethodNotImplemented) :
    kindOf r = .errorReply r := by
  simp [kindOf, h1, h2, h3, h4]

/-! ### busy, once only, reusable -/

/-- **C07 (busy)**: while the stream is not in the connection's slots, every
    kind of send (`call`, `more`, `oneway`, `upgrade`) fails — with
    `ConnectionBusy` for a fresh call object (`MethodCalledAlready` for a spent
    one, the serialization error for a request that does not serialize) — and
    wire and connection are untouched: not a byte is written, nothing is read. -/
theorem C07_busy_writes_nothing (p : Peer) (ow mo up : Bool) (s : CS) (h : s.conn.idle = false) :
    (send p ow mo up s).2.wire = s.wire ∧ (send p ow mo up s).2.conn = s.conn ∧
    ((send p ow mo up s).1 = some .connectionBusy ∨ (send p ow mo up s).1 = some .methodCalledAlready ∨
     (send p ow mo up s).1 = some .badJson) ∧
    (s.call.fresh → (send p ow mo up s).1 = some .connectionBusy) := by
  obtain ⟨h1, h2⟩ := send_not_idle p ow mo up s h
  refine ⟨by rw [h1], by rw [h1], h2, ?_⟩
  rintro ⟨meth, params, hm, hq, hu⟩
  unfold send
  have h' : (!s.conn.reader || !s.conn.writer) = true := by
    simp [Conn.idle] at h
    cases hr : s.conn.reader <;> cases hw : s.conn.writer <;> simp_all
  simp [hm, hq, hu, h']

/-- **C07 (a failed send leaves the connection untouched)**: for every state —
    idle or busy connection, fresh or spent call object, request that
    serializes or not, any flags — if `send` fails for a reason other than the
    write itself (`MethodCalledAlready`, the serialization error of the
    request, `ConnectionBusy`), the connection's slots are exactly as before,
    nothing is written and nothing is read, and the call object holds no part
    of the stream it did not hold before.  In particular a request that does
    not serialize is refused *before* the connection is looked at: an idle
    connection stays idle. -/
theorem C07_failed_send_leaves_connection_untouched (p : Peer) (ow mo up : Bool) (s : CS) (e : EKind)
    (hfail : (send p ow mo up s).1 = some e) (hio : e ≠ .io) :
    (send p ow mo up s).2.conn = s.conn ∧ (send p ow mo up s).2.wire = s.wire ∧
    (send p ow mo up s).2.call.reader = s.call.reader ∧ (send p ow mo up s).2.call.writer = s.call.writer ∧
    (e = .methodCalledAlready ∨ e = .badJson ∨ e = .connectionBusy) ∧
    (∀ meth params, s.call.method = some meth → s.call.request = some params → s.call.unser = true →
       e = .badJson) := by
  by_cases hf : s.call.method = none ∨ s.call.request = none
  · rw [send_spent p ow mo up s hf] at hfail ⊢
    simp at hfail
    refine ⟨rfl, rfl, rfl, rfl, Or.inl hfail.symm, ?_⟩
    intro meth params hm hq _
    rcases hf with hf | hf
    · rw [hm] at hf; cases hf
    · rw [hq] at hf; cases hf
  · have hm : ∃ meth, s.call.method = some meth := by
      cases h : s.call.method with
      | none => exact absurd (Or.inl h) hf
      | some m => exact ⟨m, rfl⟩
    have hq : ∃ params, s.call.request = some params := by
      cases h : s.call.request with
      | none => exact absurd (Or.inr h) hf
      | some m => exact ⟨m, rfl⟩
    obtain ⟨meth, hm⟩ := hm
    obtain ⟨params, hq⟩ := hq
    cases hu : s.call.unser with
    | true =>
      rw [send_unser p ow mo up s meth params hm hq hu] at hfail ⊢
      simp at hfail
      exact ⟨rfl, rfl, rfl, rfl, Or.inr (Or.inl hfail.symm), fun _ _ _ _ _ => hfail.symm⟩
    | false =>
      cases hi : s.conn.idle with
      | false =>
        have hb := (C07_busy_writes_nothing p ow mo up s hi).2.2.2 ⟨meth, params, hm, hq, hu⟩
        rw [hb] at hfail
        simp at hfail
        rw [(send_not_idle p ow mo up s hi).1]
        exact ⟨rfl, rfl, rfl, rfl, Or.inr (Or.inr hfail.symm), fun _ _ _ _ h' => by simp [hu] at h'⟩
      | true =>
        cases hw : s.wire.canWrite with
        | true =>
          rw [send_ok p ow mo up s meth params hm hq hu hi hw] at hfail
          simp at hfail
        | false =>
          rw [send_wfail p ow mo up s meth params hm hq hu hi hw] at hfail
          simp at hfail
          exact absurd hfail.symm hio

/-- non-vacuity: a request that does not serialize on an idle connection — the
    error, the connection untouched, and the next call goes through -/
example :
    let s : CS := { conn := {}, call := { MCall.new "a.B" .null with unser := true }, wire := {} }
    send politePeer false true false s = (some .badJson, { s with call := s.call.spent }) ∧
    (call politePeer decValue { (send politePeer false true false s).2 with call := MCall.new "a.C" .null }).map (·.1)
      = some (.ok (.obj [])) := by decide

/-- the same for the public operations -/
theorem C07_busy_operations (p : Peer) (dec : Decoder) (s : CS) (h : s.conn.idle = false) (hf : s.call.fresh) :
    (∃ s', call p dec s = some (.err .connectionBusy, s') ∧ s'.wire = s.wire) ∧
    (∃ s', upgrade p dec s = some (.err .connectionBusy, s') ∧ s'.wire = s.wire) ∧
    (∃ s', oneway p s = (.err .connectionBusy, s') ∧ s'.wire = s.wire) ∧
    (∃ s', more p s = (.err .connectionBusy, s') ∧ s'.wire = s.wire) := by
  have key : ∀ (ow mo up : Bool) (s : CS), s.conn.idle = false → s.call.fresh →
      ∃ s', send p ow mo up s = (some .connectionBusy, s') ∧ s'.wire = s.wire := by
    intro ow mo up s h hf
    obtain ⟨hw, _, _, hb⟩ := C07_busy_writes_nothing p ow mo up s h
    refine ⟨(send p ow mo up s).2, ?_, hw⟩
    have := hb hf
    exact Prod.ext this rfl
  refine ⟨?_, ?_, ?_, ?_⟩
  · obtain ⟨s', e, hw⟩ := key false false false s h hf
    exact ⟨s', by simp [call, e], hw⟩
  · obtain ⟨s', e, hw⟩ := key false false true s h hf
    exact ⟨s', by simp [upgrade, e], hw⟩
  · obtain ⟨s', e, hw⟩ := key true false false s h hf
    exact ⟨s', by simp [oneway, e], hw⟩
  · have hf' : ({ s with call := { s.call with continues := true } } : CS).call.fresh := hf
    obtain ⟨s', e, hw⟩ := key false true false { s with call := { s.call with continues := true } } h hf'
    exact ⟨s', by simp [more, e], hw⟩

/-- **C07 (once)**: whatever a send did (written, busy, failed), the call object
    is spent afterwards, and every later send on it fails with
    `MethodCalledAlready` without touching wire or connection — also after any
    number of `recv`s in between (they never refill method/request). -/
theorem C07_send_once (p : Peer) (ow mo up ow' mo' up' : Bool) (s : CS) :
    let s1 := (send p ow mo up s).2
    s1.call.method = none ∧ s1.call.request = none ∧
    ∀ s2 : CS, s2.call.method = none →
      (send p ow' mo' up' s2).1 = some .methodCalledAlready ∧
      (send p ow' mo' up' s2).2.wire = s2.wire ∧ (send p ow' mo' up' s2).2.conn = s2.conn := by
  refine ⟨(send_spends p ow mo up s).1, (send_spends p ow mo up s).2, ?_⟩
  intro s2 h
  rw [send_spent p ow' mo' up' s2 (Or.inl h)]
  simp

/-- what reaches the peer: a send appends at most one request to the log — exactly
    the call object's method and parameters with the flag of the operation — and a
    receive never writes -/
theorem C07_send_writes_at_most_one (p : Peer) (dec : Decoder) (ow mo up : Bool) (s : CS) :
    ((send p ow mo up s).2.wire.log = s.wire.log ∨
     ∃ meth params, s.call.method = some meth ∧ s.call.request = some params ∧ (send p ow mo up s).1 = none ∧
       (send p ow mo up s).2.wire.log = s.wire.log ++ [mkRequest meth params ow mo up]) ∧
    (∀ r s', recv dec s = some (r, s') → s'.wire.log = s.wire.log) := by
  constructor
  · by_cases hf : s.call.method = none ∨ s.call.request = none
    · left; rw [send_spent p ow mo up s hf]
    · have hm : ∃ meth, s.call.method = some meth := by
        cases h : s.call.method with
        | none => exact absurd (Or.inl h) hf
        | some m => exact ⟨m, rfl⟩
      have hq : ∃ params, s.call.request = some params := by
        cases h : s.call.request with
        | none => exact absurd (Or.inr h) hf
        | some m => exact ⟨m, rfl⟩
      obtain ⟨meth, hm⟩ := hm
      obtain ⟨params, hq⟩ := hq
      cases hu : s.call.unser with
      | true => left; rw [send_unser p ow mo up s meth params hm hq hu]
      | false =>
      cases hi : s.conn.idle with
      | false => left; rw [(send_not_idle p ow mo up s hi).1]
      | true =>
        cases hw : s.wire.canWrite with
        | true =>
          right
          refine ⟨meth, params, hm, hq, ?_, ?_⟩ <;> rw [send_ok p ow mo up s meth params hm hq hu hi hw]
          simp [Wire.accept]
        | false => left; rw [send_wfail p ow mo up s meth params hm hq hu hi hw]
  · intro r s' h
    unfold recv at h
    split at h
    · simp at h; rw [← h.2]
    · split at h
      · split at h
        · simp at h; rw [← h.2]
        · simp at h
      · simp at h; rw [← h.2]
      · simp at h; rw [← h.2]
      · split at h <;> (simp at h; rw [← h.2])

/-- **C07 (reusable)**: when a call that owns the stream reads a reply that
    is final (`continues` absent or false) — a result, an error, *or a payload
    that does not even decode into the caller's reply type* (any `dec`) — the
    stream is back in the connection, `continues` is off (so the iteration
    ends), and the next fresh call is sent, not refused.  The hand-back does
    not depend on what the reply carries. -/
theorem C07_reusable_after_final (p : Peer) (dec : Decoder) (s : CS) (r : Reply) (q : List Msg)
    (hr : s.call.reader = true) (hw : s.call.writer = true)
    (hq : s.wire.queue = .reply r :: q) (hfin : r.continues ≠ some true) :
    ∃ s', recv dec s = some (replyRes dec r, s') ∧ s'.conn.idle = true ∧ s'.call.reader = false ∧ s'.call.writer = false ∧
      s'.call.continues = false ∧ s'.wire.queue = q ∧
      next dec s' = some (.none, s') ∧
      (∀ dec' : Decoder, ∃ res, recv dec' s = some (res, s')) ∧
      ∀ (m : MCall) (ow mo up : Bool), m.fresh → s'.wire.canWrite = true →
        (send p ow mo up { s' with call := m }).1 = none := by
  rw [recv_reply dec s r q hr hw hq]
  simp only [hfin, if_false]
  refine ⟨_, rfl, rfl, rfl, rfl, rfl, rfl, rfl, ?_, ?_⟩
  · intro dec'
    rw [recv_reply dec' s r q hr hw hq]
    simp only [hfin, if_false]
    exact ⟨_, rfl⟩
  · rintro m ow mo up ⟨meth, params, hm, hq', hu⟩ hcw
    have := send_ok p ow mo up ⟨⟨true, true⟩, m, { s.wire with queue := q }⟩ meth params hm hq' hu rfl hcw
    exact congrArg Prod.fst this

/-- the state after *any* reply is independent of the reply type and of
    whether the payload decodes: `continues` and the slots are settled from
    the envelope alone -/
theorem C07_state_independent_of_payload (dec dec' : Decoder) (s : CS) (r : Reply) (q : List Msg)
    (hq : s.wire.queue = .reply r :: q) :
    (recv dec s).map (·.2) = (recv dec' s).map (·.2) := by
  unfold recv
  split
  · rfl
  · rw [hq]
    simp only
    split <;> rfl

/-! ### C04, client half -/

/-- **C04 (client)**: `oneway()` on an idle connection performs exactly one
    write (the request, flagged `oneway`), reads nothing (the frames under way
    are exactly those before plus whatever the peer adds), and leaves both
    slots in the connection: the reader never leaves it. -/
theorem C04_client_oneway (p : Peer) (s : CS) (meth : String) (params : Json)
    (hm : s.call.method = some meth) (hq : s.call.request = some params) (hu : s.call.unser = false)
    (hi : s.conn.idle = true) (hw : s.wire.canWrite = true) :
    ∃ s', oneway p s = (.unit, s') ∧
      s'.wire.log = s.wire.log ++ [mkRequest meth params true false false] ∧
      (mkRequest meth params true false false).oneway = some true ∧
      (∃ added, s'.wire.queue = s.wire.queue ++ added) ∧
      s'.conn = { reader := true, writer := true } ∧
      s'.call.reader = s.call.reader := by
  unfold oneway
  rw [send_ok p true false false s meth params hm hq hu hi hw]
  refine ⟨_, rfl, ?_, rfl, ?_, rfl, rfl⟩
  · simp [Wire.accept]
  · exact ⟨_, by simp [Wire.accept]; rfl⟩

/-- in every state whatsoever `oneway()` consumes no frame and does not move the reader -/
theorem C04_client_oneway_never_reads (p : Peer) (s : CS) :
    (∃ added, (oneway p s).2.wire.queue = s.wire.queue ++ added) ∧
    (oneway p s).2.conn.reader = s.conn.reader ∧ (oneway p s).2.call.reader = s.call.reader := by
  have key : (∃ added, (send p true false false s).2.wire.queue = s.wire.queue ++ added) ∧
      (send p true false false s).2.conn.reader = s.conn.reader ∧
      (send p true false false s).2.call.reader = s.call.reader := by
    by_cases hf : s.call.method = none ∨ s.call.request = none
    · rw [send_spent p true false false s hf]
      exact ⟨⟨[], by simp⟩, rfl, rfl⟩
    · have hm : ∃ meth, s.call.method = some meth := by
        cases h : s.call.method with
        | none => exact absurd (Or.inl h) hf
        | some m => exact ⟨m, rfl⟩
      have hq : ∃ params, s.call.request = some params := by
        cases h : s.call.request with
        | none => exact absurd (Or.inr h) hf
        | some m => exact ⟨m, rfl⟩
      obtain ⟨meth, hm⟩ := hm
      obtain ⟨params, hq⟩ := hq
      cases hu : s.call.unser with
      | true =>
        rw [send_unser p true false false s meth params hm hq hu]
        exact ⟨⟨[], by simp⟩, rfl, rfl⟩
      | false =>
      cases hi : s.conn.idle with
      | false =>
        rw [(send_not_idle p true false false s hi).1]
        exact ⟨⟨[], by simp⟩, rfl, rfl⟩
      | true =>
        have hr : s.conn.reader = true := by
          simp [Conn.idle] at hi; exact hi.1
        cases hw : s.wire.canWrite with
        | true =>
          rw [send_ok p true false false s meth params hm hq hu hi hw]
          refine ⟨⟨_, by simp [Wire.accept]; rfl⟩, by simp [hr], by simp [MCall.spent]⟩
        | false =>
          rw [send_wfail p true false false s meth params hm hq hu hi hw]
          exact ⟨⟨[], by simp⟩, by simp [hr], by simp [MCall.spent]⟩
  unfold oneway
  split <;> (rename_i e; rw [e] at key; exact key)

/-! ### exclusivity under all interleavings -/

/-- **C07 (exclusive)**: for every peer that obeys the protocol (nothing comes
    back for a oneway request; the final reply to a request is the last thing
    sent for it), every number of threads, every operation list per thread,
    every table of call objects (objects may even be shared between threads)
    and **every schedule** — i.e. every interleaving of the threads' atomic
    steps `send` and `read one frame + restore`:

    * at most one call object holds the reader, and none while it is in the connection;
    * every frame read was read through the call object whose request it answers
      (`deliv` records (reader, addressee) of each frame consumed; frames are tagged
      with the object whose `send` made the peer produce them).

    Proved as an inductive invariant of `stepThread` (Lemmas/ClientThreads.lean). -/
theorem C07_exclusive (p : Peer) (dec : Decoder) (hp : Obeys p) (g0 : GState) (h0 : Inv g0) (sched : List Nat) :
    let g := runSched p dec g0 sched
    (∀ i j, holds g.objs i → holds g.objs j → i = j) ∧
    (g.conn.reader = true → ∀ i, ¬ holds g.objs i) ∧
    (∀ d ∈ g.deliv, d.1 = d.2) ∧
    g.qown.length = g.wire.queue.length := by
  have h := inv_runSched p dec hp sched g0 h0
  exact ⟨h.one, fun hc => (h.idle hc).2, h.deliv, h.tags⟩

/-- the same from the initial state of any program: fresh call objects on an idle connection -/
theorem C07_exclusive_from_start (p : Peer) (dec : Decoder) (hp : Obeys p) (calls : List (String × Json))
    (progs : List (List Op)) (w : Wire) (hq : w.queue = []) (sched : List Nat) :
    let g := runSched p dec { wire := w, objs := calls.map fun c => MCall.new c.1 c.2, progs := progs } sched
    (∀ i j, holds g.objs i → holds g.objs j → i = j) ∧ (∀ d ∈ g.deliv, d.1 = d.2) := by
  have h0 : Inv { wire := w, objs := calls.map fun c => MCall.new c.1 c.2, progs := progs } := by
    apply inv_init {} w _ progs hq
    intro m hm
    simp at hm
    obtain ⟨a, b, _, rfl⟩ := hm
    rfl
  have := C07_exclusive p dec hp _ h0 sched
  exact ⟨this.1, this.2.2.1⟩

/-- **C07 (busy, across threads)**: in every state reachable under the
    invariant in which some call object owns the stream (a `call` waiting for
    its reply or a `more` iteration in progress — started by whichever thread),
    the next sending operation of *any* thread on a fresh call object returns
    `ConnectionBusy` at once, and wire and connection are exactly as before. -/
theorem C07_busy_while_outstanding (p : Peer) (dec : Decoder) (g : GState) (t i j : Nat) (m : MCall) (op : Op) (rest : List Op)
    (hinv : Inv g) (hj : holds g.objs j)
    (hprog : g.progs[t]? = some (op :: rest))
    (hop : op = .call i ∨ op = .upgrade i ∨ op = .oneway i ∨ op = .more i)
    (hm : g.objs[i]? = some m) (hfresh : m.fresh) :
    ∃ g', stepThread p dec g t = some g' ∧ g'.wire = g.wire ∧ g'.conn = g.conn ∧
      g'.trace = g.trace ++ [(t, .err .connectionBusy)] ∧ g'.progs = g.progs.set t rest := by
  have hcr : g.conn.reader = false := by
    cases hc : g.conn.reader with
    | false => rfl
    | true => exact absurd hj ((hinv.idle hc).2 j)
  have hidle : g.conn.idle = false := by simp [Conn.idle, hcr]
  have hobj : g.objs[op.obj]? = some m := by
    rcases hop with rfl | rfl | rfl | rfl <;> exact hm
  unfold stepThread
  rw [hprog]
  simp only [hobj]
  rcases hop with rfl | rfl | rfl | rfl
  · have := doSend_busy p g t i m false false false (.recv i :: rest) false rest hidle hfresh
    exact ⟨_, rfl, this.1, this.2.1, this.2.2.1, this.2.2.2.1⟩
  · have := doSend_busy p g t i m false false true (.recv i :: rest) false rest hidle hfresh
    exact ⟨_, rfl, this.1, this.2.1, this.2.2.1, this.2.2.2.1⟩
  · have := doSend_busy p g t i m true false false rest true rest hidle hfresh
    exact ⟨_, rfl, this.1, this.2.1, this.2.2.1, this.2.2.2.1⟩
  · have := doSend_busy p g t i { m with continues := true } false true false rest true rest hidle hfresh
    exact ⟨_, rfl, this.1, this.2.1, this.2.2.1, this.2.2.2.1⟩

/-- `call()` of the interleaving model (a `send` step, later a `recv` step of the
    same thread) is `Client.call` when no other step intervenes: the theorems
    about `Client.call` (`C07_outcome`) and about steps (`C07_exclusive`) speak
    about the same operation. -/
theorem C07_call_is_send_then_recv (p : Peer) (dec : Decoder) (g : GState) (t i : Nat) (m : MCall) (rest : List Op)
    (hprog : g.progs[t]? = some (.call i :: rest)) (hm : g.objs[i]? = some m) :
    ∃ g1, stepThread p dec g t = some g1 ∧
      ((∃ e s1, send p false false false (g.cs m) = (some e, s1) ∧
          call p dec (g.cs m) = some (.err e, s1) ∧ g1.trace = g.trace ++ [(t, .err e)] ∧
          g1.conn = s1.conn ∧ g1.wire = s1.wire ∧ g1.objs = g.objs.set i s1.call ∧ g1.progs = g.progs.set t rest) ∨
       (∃ s1, send p false false false (g.cs m) = (none, s1) ∧ g1.trace = g.trace ∧
          (stepThread p dec g1 t).map (fun g2 => (g2.trace, g2.conn, g2.wire, g2.objs, g2.progs)) =
            (call p dec (g.cs m)).map (fun rs => (g.trace ++ [(t, rs.1)], rs.2.conn, rs.2.wire,
                                                   g.objs.set i rs.2.call, g.progs.set t rest)))) :=
  call_two_steps p dec g t i m rest hprog hm

/-- the ghost bookkeeping is only bookkeeping: erasing it commutes with every step -/
theorem C07_ghost_erasure (p : Peer) (dec : Decoder) (g : GState) (t : Nat) :
    (stepThread p dec g t).map GState.erase = (stepThread p dec g.erase t).map GState.erase := by
  have hs : ∀ (g : GState) (t i : Nat) (m : MCall) (ow mo up : Bool) (a : List Op) (b : Bool) (c : List Op),
      (g.doSend p t i m ow mo up a b c).erase = (g.erase.doSend p t i m ow mo up a b c).erase := by
    intro g t i m ow mo up a b c
    unfold GState.doSend
    have : g.erase.cs m = g.cs m := rfl
    rw [this]
    rcases send p ow mo up (g.cs m) with ⟨r, s'⟩
    cases r with
    | none => cases b <;> rfl
    | some e => rfl
  have hr : ∀ (g : GState) (t i : Nat) (m : MCall) (c : List Op),
      (g.doRecv dec t i m c).map GState.erase = (g.erase.doRecv dec t i m c).map GState.erase := by
    intro g t i m c
    unfold GState.doRecv
    have : g.erase.cs m = g.cs m := rfl
    rw [this]
    cases recv dec (g.cs m) with
    | none => rfl
    | some rs =>
      obtain ⟨r, s'⟩ := rs
      simp only [Option.map]
      congr 1
      have l : ((((g.put i s').tagRecv g.wire.queue.length i).setProg t c).done t r).erase =
          ((((g.put i s').tagRecv g.wire.queue.length i).erase).setProg t c).done t r := rfl
      have r' : ((((g.erase.put i s').tagRecv g.erase.wire.queue.length i).setProg t c).done t r).erase =
          ((((g.erase.put i s').tagRecv g.erase.wire.queue.length i).erase).setProg t c).done t r := rfl
      rw [l, r', erase_tagRecv, erase_tagRecv]
      rfl
  unfold stepThread
  have e1 : g.erase.progs = g.progs := rfl
  have e2 : g.erase.objs = g.objs := rfl
  rw [e1, e2]
  cases hpg : g.progs[t]? with
  | none => rfl
  | some prog =>
    cases prog with
    | nil => rfl
    | cons op rest =>
      simp only
      cases ho : g.objs[op.obj]? with
      | none => rfl
      | some m =>
        cases op with
        | call i => simp only [Option.map]; exact congrArg some (hs g t i m _ _ _ _ _ _)
        | upgrade i => simp only [Option.map]; exact congrArg some (hs g t i m _ _ _ _ _ _)
        | oneway i => simp only [Option.map]; exact congrArg some (hs g t i m _ _ _ _ _ _)
        | more i => simp only [Option.map]; exact congrArg some (hs g t i _ _ _ _ _ _ _)
        | next i =>
          simp only
          split
          · rfl
          · exact hr g t i m rest
        | recv i => exact hr g t i m rest

/-- non-vacuity of `C07_exclusive`: two threads race for the connection; the
    loser gets `ConnectionBusy`, the winner its own reply -/
example :
    (runSched politePeer decValue
      { objs := [MCall.new "a.A" .null, MCall.new "b.B" .null], progs := [[.call 0], [.call 1]] }
      [0, 1, 0]).trace = [(1, .err .connectionBusy), (0, .ok (.obj []))] := by decide

/-- the hypothesis is needed: against a peer that answers a oneway request the
    next call is handed the reply meant for the oneway one (this is the client
    view of property C04, which holds for the service of this repository) -/
theorem C07_exclusive_needs_obeys :
    let rude : Peer := fun _ _ => ([.reply {}], false)
    (runSched rude decValue
      { objs := [MCall.new "a.A" .null, MCall.new "b.B" .null], progs := [[.oneway 0, .call 1]] }
      [0, 0, 0]).deliv = [(1, 0)] := by decide

/-! ### C05, client half -/

/-- **C05 (client iteration)**: for every reply stream `r₁ … r_k` (each
    `continues: true`; any `k`, results or errors alike) followed by a final
    reply `f` (`continues` absent or false), sent by the peer in answer to the
    `more` request: `more()` succeeds and takes the stream; the first `k`
    `next()`s yield the outcomes of `r₁ … r_k` in order while the connection
    stays busy; the `k+1`-th yields the outcome of `f` and puts the stream back
    (both slots present, nothing left under way); every further `next()` yields
    `None` and changes nothing; and a fresh call is then sent, not refused. -/
theorem C05_iteration (p : Peer) (dec : Decoder) (s : CS) (meth : String) (params : Json) (rs : List Reply) (f : Reply)
    (hm : s.call.method = some meth) (hq : s.call.request = some params) (hu : s.call.unser = false)
    (hi : s.conn.idle = true) (hw : s.wire.canWrite = true)
    (hempty : s.wire.queue = []) (hopen : s.wire.closed = false)
    (hpeer : (p s.wire.log (mkRequest meth params false true false)).1 = rs.map Msg.reply ++ [.reply f])
    (hall : ∀ r ∈ rs, r.continues = some true) (hf : f.continues ≠ some true) :
    ∃ s0 sk s1,
      more p s = (.unit, s0) ∧ s0.conn.idle = false ∧
      s0.wire.log = s.wire.log ++ [mkRequest meth params false true false] ∧
      nexts dec rs.length s0 = some (rs.map (replyRes dec), sk) ∧ sk.conn.idle = false ∧
      nexts dec (rs.length + 1) s0 = some (rs.map (replyRes dec) ++ [replyRes dec f], s1) ∧
      s1.conn = { reader := true, writer := true } ∧ s1.wire.queue = [] ∧ s1.wire.log = s0.wire.log ∧
      (∀ n, nexts dec n s1 = some (List.replicate n .none, s1)) ∧
      (∀ (m : MCall) (ow mo up : Bool), m.fresh → s1.wire.canWrite = true →
        (send p ow mo up { s1 with call := m }).1 = none) := by
  have hsend := send_ok p false true false { s with call := { s.call with continues := true } } meth params hm hq hu hi hw
  have hqueue : (s.wire.accept p (mkRequest meth params false true false)).queue =
      rs.map Msg.reply ++ [.reply f] := by
    simp [Wire.accept, hempty, hopen, hpeer]
  simp only [Bool.false_eq_true, if_false] at hsend
  let s0 : CS :=
    { conn := { reader := false, writer := false },
      call := { ({ s.call with continues := true } : MCall).spent with reader := true, writer := true },
      wire := s.wire.accept p (mkRequest meth params false true false) }
  have hmore : more p s = (.unit, s0) := by simp only [more]; rw [hsend]
  have h1 := nexts_continues dec rs [.reply f] s0 rfl rfl rfl hqueue hall
  have h2 := nexts_stream dec rs f [] s0 rfl rfl rfl hqueue hall hf
  refine ⟨s0, _, _, hmore, rfl, by simp [s0, Wire.accept], h1, rfl, h2, rfl, rfl, rfl, nexts_ended dec _ rfl, ?_⟩
  rintro m ow mo up ⟨meth', params', hm', hq', hu'⟩ hcw
  have := send_ok p ow mo up ⟨⟨true, true⟩, m, { s0.wire with queue := [] }⟩ meth' params' hm' hq' hu' rfl hcw
  exact congrArg Prod.fst this

/-- non-vacuity of `C05_iteration` and `C07_outcome`: a concrete peer, two
    `continues` replies and a final error -/
example :
    let p : Peer := fun _ _ => ([.reply { continues := some true, parameters := some (.int 1) },
                                 .reply { continues := some true, parameters := some (.int 2) },
                                 .reply { error := some "org.example.Done" }], false)
    let s : CS := { conn := {}, call := MCall.new "org.example.Stream" .null, wire := {} }
    ∃ s0, more p s = (.unit, s0) ∧
      (nexts decValue 4 s0).map (·.1) = some [.ok (.int 1), .ok (.int 2),
        .err (.errorReply { error := some "org.example.Done" }), .none] := by
  exact ⟨_, rfl, by decide⟩

/-- non-vacuity of the typed clauses: a reply type that wants an integer
    member `i`; the final reply of the stream carries `{"i":"done"}`.  The
    iterator yields the decode error for it, then ends, and the connection is
    free again. -/
example :
    let dec : Decoder := fun j => match j.get? "i" with | some (.int _) => some j | _ => none
    let p : Peer := fun _ _ => ([.reply { continues := some true, parameters := some (.obj [("i", .int 1)]) },
                                 .reply { parameters := some (.obj [("i", .str "done")]) }], false)
    let s : CS := { conn := {}, call := MCall.new "org.example.Stream" .null, wire := {} }
    ∃ s0, more p s = (.unit, s0) ∧
      (nexts dec 3 s0).map (fun x => (x.1, x.2.conn)) =
        some ([.ok (.obj [("i", .int 1)]), .err .badJson, .none], { reader := true, writer := true }) := by
  exact ⟨_, rfl, by decide⟩

end VV
