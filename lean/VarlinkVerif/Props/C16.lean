/-
C16 — all transports and address forms behave identically; a socket-activated
service gets descriptor 3 and the four variables with LISTEN_PID = its own pid,
and a server honours activation only when LISTEN_PID names it; every other
address scheme is rejected by client and server alike.

What is proved here is the part that is a function of strings, environments and
byte streams.  fork/exec, descriptor inheritance and the shell are *data* in
`Model.Addr` (`execRecipe`, `runRecipe`); that the operating system behaves as
`runRecipe` says is observed by the `addr` suite (environment and descriptor
table dumped by the real child), not proved.
-/
import VarlinkVerif.Lemmas.Addr
import VarlinkVerif.Props.C02

namespace VV
open Addr

/-- **C16 same schemes**: for every string, client (`varlink_connect`) and server
    (`Listener::new` without activation) take the same decision and extract the
    same target; the accepted strings are exactly those with one of the prefixes
    `tcp:`, `unix:@`, `unix:`; a TCP target is the remainder unchanged, an abstract
    name / a path is the remainder up to the first `;`; everything else is
    `InvalidAddress` on both sides. -/
theorem C16_same_schemes (s : Str) :
    clientParse s = serverParse s ∧
    (clientAccepts s = true ↔ serverAccepts s = true) ∧
    (clientAccepts s = true ↔
      (startsWith pTcp s = true ∨ startsWith pUnixAt s = true ∨ startsWith pUnix s = true)) ∧
    (∀ a, s = pTcp ++ a → clientParse s = some (.tcp a)) ∧
    (∀ a, s = pUnixAt ++ a → clientParse s = some (.abstract (beforeSemi a))) ∧
    (∀ a, s = pUnix ++ a → (∀ b, a ≠ '@' :: b) → clientParse s = some (.path (beforeSemi a))) ∧
    (startsWith pTcp s = false → startsWith pUnix s = false → clientParse s = none ∧ serverParse s = none) := by
  have hEq : clientParse s = serverParse s := by
    unfold clientParse serverParse
    cases stripPrefix pTcp s <;> cases stripPrefix pUnixAt s <;> cases stripPrefix pUnix s <;> rfl
  refine ⟨hEq, ?_, ?_, ?_, ?_, ?_, ?_⟩
  · unfold clientAccepts serverAccepts; rw [hEq]
  · unfold clientAccepts clientParse startsWith
    cases stripPrefix pTcp s <;> cases stripPrefix pUnixAt s <;> cases stripPrefix pUnix s <;> simp
  · intro a ha
    have := (stripPrefix_eq_some_iff pTcp s a).2 ha
    simp [clientParse, this]
  · intro a ha
    have h1 : stripPrefix pTcp s = none := by subst ha; rfl
    have h2 := (stripPrefix_eq_some_iff pUnixAt s a).2 ha
    simp [clientParse, h1, h2]
  · intro a ha hb
    have h1 : stripPrefix pTcp s = none := by subst ha; rfl
    have h2 : stripPrefix pUnixAt s = none := by
      rw [stripPrefix_eq_none_iff]
      rintro ⟨r, hr⟩
      rw [ha] at hr
      have : a = '@' :: r := by simpa [pUnix, pUnixAt] using hr
      exact hb r this
    have h3 := (stripPrefix_eq_some_iff pUnix s a).2 ha
    simp [clientParse, h1, h2, h3]
  · intro h1 h2
    have h3 : startsWith pUnixAt s = false := by
      cases h : startsWith pUnixAt s with
      | false => rfl
      | true => rw [unixAt_imp_unix s h] at h2; cases h2
    rw [← hEq]
    unfold startsWith at h1 h2 h3
    unfold clientParse
    cases h4 : stripPrefix pTcp s <;> cases h5 : stripPrefix pUnixAt s <;> cases h6 : stripPrefix pUnix s <;>
      simp_all

/-- **C16 path extraction**: the name a unix address denotes contains no `;`, is a
    prefix of the text after the scheme, and is followed by nothing or by `;…`
    (so `unix:/p` and `unix:/p;mode=0666` denote the same socket on both sides). -/
theorem C16_path_before_semicolon (p params : Str) (h : ';' ∉ p) :
    clientParse (pUnix ++ p ++ ';' :: params) = clientParse (pUnix ++ p) ∧
    serverParse (pUnix ++ p ++ ';' :: params) = serverParse (pUnix ++ p) ∧
    ((∀ b, p ≠ '@' :: b) → clientParse (pUnix ++ p) = some (.path p)) := by
  have key : ∀ q : Str, clientParse (pUnix ++ p ++ q) =
      (match p ++ q with
       | '@' :: a => some (.abstract (beforeSemi a))
       | a => some (.path (beforeSemi a))) := by
    intro q
    have h1 : stripPrefix pTcp (pUnix ++ p ++ q) = none := rfl
    cases hp : p ++ q with
    | nil =>
      have : pUnix ++ p ++ q = pUnix := by rw [List.append_assoc, hp]; rfl
      rw [this]; rfl
    | cons c cs =>
      have e : pUnix ++ p ++ q = pUnix ++ (c :: cs) := by rw [List.append_assoc, hp]
      rw [e]
      by_cases hc : c = '@'
      · subst hc
        have h2 : stripPrefix pUnixAt (pUnix ++ '@' :: cs) = some cs :=
          (stripPrefix_eq_some_iff _ _ _).2 rfl
        simp [clientParse, h2]
        rfl
      · have h2 : stripPrefix pUnixAt (pUnix ++ c :: cs) = none := by
          rw [stripPrefix_eq_none_iff]
          rintro ⟨r, hr⟩
          have : c = '@' := by simpa [pUnix, pUnixAt] using congrArg (fun l => l.drop 5 |>.head?) hr
          exact hc this
        have h3 : stripPrefix pUnix (pUnix ++ c :: cs) = some (c :: cs) :=
          (stripPrefix_eq_some_iff _ _ _).2 rfl
        have h1' : stripPrefix pTcp (pUnix ++ c :: cs) = none := rfl
        simp only [clientParse, h1', h2, h3]
        split
        · rename_i heq; simp only [List.cons.injEq] at heq; exact absurd heq.1 hc
        · rfl
  have k1 := key (';' :: params)
  have k2 := key []
  simp only [List.append_nil] at k2
  have hsame : clientParse (pUnix ++ p ++ ';' :: params) = clientParse (pUnix ++ p) := by
    rw [k1, k2]
    cases p with
    | nil => simp [beforeSemi]
    | cons c cs =>
      simp only [List.mem_cons, not_or] at h
      by_cases hc : c = '@'
      · subst hc
        simp [beforeSemi_append_semi cs params h.2, beforeSemi_of_no_semi cs h.2]
      · have : beforeSemi (c :: cs ++ ';' :: params) = c :: cs := by
          have := beforeSemi_append_semi (c :: cs) params (by simp [h.1, h.2])
          simpa using this
        have h' : beforeSemi (c :: cs) = c :: cs := beforeSemi_of_no_semi _ (by simp [h.1, h.2])
        simp only [List.cons_append] at this ⊢
        split <;> rename_i heq
        · simp only [List.cons.injEq] at heq; exact absurd heq.1 hc
        · split <;> rename_i heq2
          · simp only [List.cons.injEq] at heq2; exact absurd heq2.1 hc
          · rw [this, h']
  refine ⟨hsame, ?_, ?_⟩
  · rw [← (C16_same_schemes _).1, ← (C16_same_schemes _).1]; exact hsame
  · intro hb
    rw [k2]
    cases p with
    | nil => simp [beforeSemi]
    | cons c cs =>
      have hc : c ≠ '@' := fun e => hb cs (by rw [e])
      split <;> rename_i heq
      · simp only [List.cons.injEq] at heq; exact absurd heq.1 hc
      · rw [beforeSemi_of_no_semi _ h]

/-- **C16 activation guard**: the server adopts an inherited descriptor only if
    `LISTEN_PID` is set and parses to the server's own pid and `LISTEN_FDS` parses
    to a number ≥ 1; the descriptor is 3 when one descriptor is passed, otherwise
    3 + the position of `varlink` in `LISTEN_FDNAMES` (split at `:`). -/
theorem C16_activation_guard (env : Env) (pid fd : Nat) (h : activationListener env pid = some fd) :
    (∃ p, envGet kListenPid env = some p ∧ parseUsize p = some pid) ∧
    (∃ n k, envGet kListenFds env = some n ∧ parseUsize n = some k ∧ 1 ≤ k ∧
      ((k = 1 ∧ fd = 3) ∨
       (k ≠ 1 ∧ ∃ names i, envGet kListenFdnames env = some names ∧
          indexOf sVarlink (splitColon names) = some i ∧ fd = 3 + i))) := by
  unfold activationListener at h
  cases hn : envGet kListenFds env with
  | none => simp [hn] at h
  | some n =>
    simp only [hn] at h
    cases hk : parseUsize n with
    | none => simp [hk] at h
    | some k =>
      simp only [hk] at h
      by_cases hk1 : k < 1
      · simp [hk1] at h
      · simp only [hk1, if_false] at h
        cases hp : envGet kListenPid env with
        | none => simp [hp] at h
        | some p =>
          simp only [hp] at h
          by_cases hpp : parseUsize p = some pid
          · simp only [hpp, if_true] at h
            refine ⟨⟨p, rfl, hpp⟩, n, k, rfl, hk, by omega, ?_⟩
            by_cases h1 : k = 1
            · simp only [h1, if_true, Option.some.injEq] at h
              exact Or.inl ⟨h1, h.symm⟩
            · simp only [h1, if_false] at h
              cases hnm : envGet kListenFdnames env with
              | none => simp [hnm] at h
              | some names =>
                simp only [hnm] at h
                cases hi : indexOf sVarlink (splitColon names) with
                | none => simp [hi] at h
                | some i =>
                  simp only [hi, Option.map_some, Option.some.injEq] at h
                  exact Or.inr ⟨h1, names, i, rfl, hi, h.symm⟩
          · simp [hpp] at h

/-- **C16 activation only for the named process**: if `LISTEN_PID` is absent or
    does not parse to this process' pid, `Listener::new` behaves exactly as with
    an empty environment (it binds a fresh socket or rejects the address). -/
theorem C16_activation_only_own_pid (env : Env) (pid : Nat) (s : Str)
    (h : ∀ p, envGet kListenPid env = some p → parseUsize p ≠ some pid) :
    activationListener env pid = none ∧
    serverListen env pid s = (match serverParse s with | some t => .bind t | none => .invalid) := by
  have hnone : activationListener env pid = none := by
    cases ha : activationListener env pid with
    | none => rfl
    | some fd =>
      obtain ⟨⟨p, hp1, hp2⟩, _⟩ := C16_activation_guard env pid fd ha
      exact absurd hp2 (h p hp1)
  exact ⟨hnone, by unfold serverListen; rw [hnone]; rfl⟩

/-- **C16 invalid addresses are rejected alike**: whatever the environment — with
    or without socket activation — `Listener::new` answers `InvalidAddress` exactly
    for the strings `varlink_connect` answers `InvalidAddress` for. -/
theorem C16_invalid_rejected_alike (env : Env) (pid : Nat) (s : Str) :
    serverListen env pid s = .invalid ↔ clientParse s = none := by
  have hs := C16_same_schemes s
  obtain ⟨hEq, _, hAcc, _, _, _, hNone⟩ := hs
  unfold serverListen
  cases ha : activationListener env pid with
  | some l =>
    simp only
    by_cases h1 : startsWith pTcp s = true
    · have : clientAccepts s = true := hAcc.2 (Or.inl h1)
      unfold clientAccepts at this
      cases hc : clientParse s with
      | none => rw [hc] at this; cases this
      | some t => simp [h1]
    · by_cases h2 : startsWith pUnix s = true
      · have : clientAccepts s = true := hAcc.2 (Or.inr (Or.inr h2))
        unfold clientAccepts at this
        cases hc : clientParse s with
        | none => rw [hc] at this; cases this
        | some t => simp [h1, h2]
      · have h1' : startsWith pTcp s = false := by simpa using h1
        have h2' : startsWith pUnix s = false := by simpa using h2
        simp [h1', h2', (hNone h1' h2').1]
  | none =>
    simp only
    rw [← hEq]
    cases clientParse s <;> simp

/-- **C16 spawn recipe**: the process that `varlink_exec(cmd)` ends up running
    (`sh -c "LISTEN_PID=$$ exec cmd"` after the `pre_exec` descriptor moves) runs
    `cmd`, has the listening socket as descriptor 3 (inheritable), and the four
    variables `VARLINK_ADDRESS=unix:<socket path>`, `LISTEN_FDS=1`,
    `LISTEN_FDNAMES=varlink`, `LISTEN_PID=<its own pid>` — whatever the parent's
    environment held under those names, whatever descriptor number the listener
    had in the parent (0, 1, 2 when the caller's standard descriptors are closed,
    3, or higher) and whatever else the parent's descriptor table holds, for every
    pid below 2^64; consequently a varlink server in that process adopts
    descriptor 3 for the advertised address.  (Since 2afad3a; before, the recipe
    began with `dup2(2, 1)`: see the two `C16_history_…` theorems.) -/
theorem C16_spawn_recipe (cmd sockPath : Str) (fd pid : Nat) (parentEnv : Env) (parentFds : FdTable)
    (listener : FdEntry) (hl : fdGet fd parentFds = some listener) (hpid : pid < usizeBound) :
    let r := execRecipe cmd sockPath fd
    r.program = ['s', 'h'] ∧ r.args = [['-', 'c'], shLinePrefix ++ cmd] ∧
    ∃ c, runRecipe r parentEnv parentFds pid = some c ∧
      c.pid = pid ∧ c.cmd = cmd ∧
      fdGet 3 c.fds = some { listener with cloexec := false } ∧
      envGet kListenPid c.env = some (decimal pid) ∧ parseUsize (decimal pid) = some c.pid ∧
      envGet kListenFds c.env = some ['1'] ∧
      envGet kListenFdnames c.env = some sVarlink ∧
      envGet kVarlinkAddress c.env = some (pUnix ++ sockPath) ∧
      activationListener c.env c.pid = some 3 ∧
      serverListen c.env c.pid (pUnix ++ sockPath) = .adoptUnix 3 := by
  intro r
  refine ⟨rfl, rfl, ?_⟩
  have hstrip : stripPrefix shLinePrefix (shLinePrefix ++ cmd) = some cmd :=
    (stripPrefix_eq_some_iff _ _ _).2 rfl
  have hrun : runRecipe r parentEnv parentFds pid = some
      { pid := pid, cmd := cmd,
        env := (kListenPid, decimal pid) :: envOverride r.envAdd parentEnv,
        fds := execFds (r.preExec.foldl applyFdAct parentFds) } := by
    simp only [runRecipe, r, execRecipe, hstrip]
  refine ⟨_, hrun, rfl, rfl, ?_, ?_, parseUsize_decimal pid hpid, ?_, ?_, ?_, ?_, ?_⟩
  · -- descriptor 3
    apply fdGet_execFds
    · show fdGet 3 (r.preExec.foldl applyFdAct parentFds) = some { listener with cloexec := false }
      simp only [r, execRecipe]
      by_cases h3 : fd = 3
      · subst h3
        simp only [ne_eq, not_true_eq_false, if_false, List.cons_append, List.nil_append, List.foldl_cons,
          List.foldl_nil]
        rw [fdGet_dup2IfInheritable_other _ 2 1 3 (by decide)]
        exact fdGet_clearCloexec _ 3 listener hl
      · simp only [ne_eq, h3, not_false_eq_true, if_true, List.cons_append, List.nil_append, List.foldl_cons,
          List.foldl_nil]
        rw [fdGet_dup2IfInheritable_other _ 2 1 3 (by decide)]
        rw [fdGet_close_other _ fd 3 (fun e => h3 e.symm)]
        exact fdGet_dup2_dst _ fd 3 listener hl h3
    · rfl
  · simp [envGet]
  · simp [envGet, envOverride, r, execRecipe, kListenPid, kVarlinkAddress, kListenFds]
  · simp [envGet, envOverride, r, execRecipe, kListenPid, kVarlinkAddress, kListenFds, kListenFdnames]
  · simp [envGet, envOverride, r, execRecipe, kListenPid, kVarlinkAddress]
  · have e1 : envGet kListenFds ((kListenPid, decimal pid) :: envOverride r.envAdd parentEnv) = some ['1'] := by
      simp [envGet, envOverride, r, execRecipe, kListenPid, kVarlinkAddress, kListenFds]
    have e2 : envGet kListenPid ((kListenPid, decimal pid) :: envOverride r.envAdd parentEnv) = some (decimal pid) := by
      simp [envGet]
    have p1 : parseUsize ['1'] = some 1 := by decide
    simp only [activationListener, e1, e2, p1, parseUsize_decimal pid hpid]
    simp
  · have e1 : envGet kListenFds ((kListenPid, decimal pid) :: envOverride r.envAdd parentEnv) = some ['1'] := by
      simp [envGet, envOverride, r, execRecipe, kListenPid, kVarlinkAddress, kListenFds]
    have e2 : envGet kListenPid ((kListenPid, decimal pid) :: envOverride r.envAdd parentEnv) = some (decimal pid) := by
      simp [envGet]
    have p1 : parseUsize ['1'] = some 1 := by decide
    have ha : activationListener ((kListenPid, decimal pid) :: envOverride r.envAdd parentEnv) pid = some 3 := by
      simp only [activationListener, e1, e2, p1, parseUsize_decimal pid hpid]
      simp
    have hu : startsWith pUnix (pUnix ++ sockPath) = true := (startsWith_iff _ _).2 ⟨sockPath, rfl⟩
    have ht : startsWith pTcp (pUnix ++ sockPath) = false := tcp_not_unix_rev _ hu
    simp only [serverListen, ha, hu, ht]
    simp

/-- a concrete parent: inherited foreign `LISTEN_PID`, stdio, the listener (object 7) and a
    descriptor 7 that is close-on-exec -/
def exParentEnv : Env := [(kListenPid, ['1']), (['P', 'A', 'T', 'H'], ['/', 'b', 'i', 'n'])]
def exParentFds (listenerFd : Nat) : FdTable :=
  [(0, ⟨100, false⟩), (1, ⟨101, false⟩), (2, ⟨102, false⟩), (listenerFd, ⟨7, true⟩), (7, ⟨9, true⟩)]

/-- non-vacuity of `C16_spawn_recipe`: the listener is descriptor 5 in the parent (moved to 3 with
    dup2, 5 closed), or already descriptor 3 (close-on-exec cleared); descriptor 7 is gone after
    the exec, stdout is stderr -/
example :
    let child5 := runRecipe (execRecipe ['s', 'v', 'c'] ['/', 't'] 5) exParentEnv (exParentFds 5) 4242
    let child3 := runRecipe (execRecipe ['s', 'v', 'c'] ['/', 't'] 3) exParentEnv (exParentFds 3) 4242
    child5.map (fun c => (c.pid, c.cmd)) = some (4242, ['s', 'v', 'c']) ∧
    child5.map (fun c => (fdGet 3 c.fds, fdGet 1 c.fds)) = some (some ⟨7, false⟩, some ⟨102, false⟩) ∧
    child5.map (fun c => (fdGet 5 c.fds, fdGet 7 c.fds)) = some (none, none) ∧
    child3.map (fun c => (fdGet 3 c.fds, fdGet 7 c.fds)) = some (some ⟨7, false⟩, none) ∧
    child3.map (fun c => envGet kVarlinkAddress c.env) = some (some ['u', 'n', 'i', 'x', ':', '/', 't']) := by
  decide

/-- the hypotheses of `C16_spawn_recipe` hold for that parent, so its child — whose inherited
    `LISTEN_PID=1` is overridden by its own pid — adopts descriptor 3 -/
example : ∃ c, runRecipe (execRecipe ['s', 'v', 'c'] ['/', 't'] 5) exParentEnv (exParentFds 5) 4242 = some c ∧
    envGet kListenPid c.env = some (decimal 4242) ∧ activationListener c.env c.pid = some 3 ∧
    envGet kListenPid exParentEnv = some ['1'] := by
  have h := C16_spawn_recipe ['s', 'v', 'c'] ['/', 't'] 5 4242 exParentEnv (exParentFds 5) ⟨7, true⟩
    (by decide) (by decide)
  obtain ⟨_, _, c, hc, _, _, _, hp, _, _, _, _, ha, _⟩ := h
  exact ⟨c, hc, hp, ha, by decide⟩

/-- the recipe as it was before 2afad3a: `dup2(2, 1)` first, unconditionally -/
def oldExecRecipe (cmd sockPath : Str) (fd : Nat) : Recipe :=
  { execRecipe cmd sockPath fd with
    preExec := .dup2 2 1 :: (if fd ≠ 3 then [.dup2 fd 3, .close fd] else [.clearCloexec 3]) }

/-- **history (fixed by 2afad3a, C16-F3 a)**: with the old recipe a caller whose stdout is closed
    lost the listener — it is descriptor 1, `dup2(2, 1)` replaced it by stderr before it was
    moved, the child's descriptor 3 was stderr's object (102); with the current recipe the child
    gets the listening socket (7) and its stdout is the caller's stderr -/
theorem C16_history_listener_at_1_before_2afad3a :
    let parentFds : FdTable := [(0, ⟨100, false⟩), (2, ⟨102, false⟩), (1, ⟨7, true⟩)]
    (runRecipe (oldExecRecipe ['s'] ['/', 't'] 1) [] parentFds 4242).map (fun c => (fdGet 3 c.fds, fdGet 1 c.fds)) =
      some (some ⟨102, false⟩, none) ∧
    (runRecipe (execRecipe ['s'] ['/', 't'] 1) [] parentFds 4242).map (fun c => (fdGet 3 c.fds, fdGet 1 c.fds)) =
      some (some ⟨7, false⟩, some ⟨102, false⟩) := by
  decide

/-- **history (fixed by 2afad3a, C16-F3 b)**: with 0, 1 and 2 closed the listener is descriptor 0
    and `Command::spawn` puts its close-on-exec status channel on 1 (read end, closed in the
    child) and 2 (write end, object 201); the old recipe's `dup2(2, 1)` gave the child a copy of
    the write end that was not close-on-exec, so `spawn` in the parent did not return before the
    service exited; the current recipe leaves a close-on-exec descriptor 2 alone -/
theorem C16_history_status_channel_before_2afad3a :
    let atFork : FdTable := [(0, ⟨7, true⟩), (2, ⟨201, true⟩)]
    (runRecipe (oldExecRecipe ['s'] ['/', 't'] 0) [] atFork 4242).map
      (fun c => (fdGet 3 c.fds, fdGet 1 c.fds, fdGet 2 c.fds)) = some (some ⟨7, false⟩, some ⟨201, false⟩, none) ∧
    (runRecipe (execRecipe ['s'] ['/', 't'] 0) [] atFork 4242).map
      (fun c => (fdGet 3 c.fds, fdGet 1 c.fds, fdGet 2 c.fds)) = some (some ⟨7, false⟩, none, none) := by
  decide

/-- non-vacuity of `C16_spawn_recipe` and of the activation matrix: concrete
    environments, including the quirks the `addr` suite replays on the real code
    (`+1`, leading zeros, a name index beyond `LISTEN_FDS`) -/
example :
    let env (fds pid names : String) : Env :=
      [(kListenFds, fds.toList), (kListenPid, pid.toList), (kListenFdnames, names.toList)]
    activationListener (env "1" "4242" "x") 4242 = some 3 ∧
    activationListener (env "+1" "004242" "x") 4242 = some 3 ∧
    activationListener (env "1" "4243" "varlink") 4242 = none ∧
    activationListener (env "0" "4242" "varlink") 4242 = none ∧
    activationListener (env "3" "4242" "a:varlink:b") 4242 = some 4 ∧
    activationListener (env "3" "4242" "a:b:c") 4242 = none ∧
    activationListener (env "2" "4242" "a:b:c:varlink") 4242 = some 6 ∧
    activationListener (env "-1" "4242" "varlink") 4242 = none ∧
    activationListener (env " 1" "4242" "varlink") 4242 = none ∧
    activationListener [(kListenFds, ['1'])] 4242 = none := by
  decide

/-- a transport is nothing but a way of cutting the request byte stream into the
    results of successive `read` calls (socket segmentation of a unix, abstract or
    TCP socket, of the activation socket, of the socket pair of a bridge command) -/
structure Transport where
  sched : Bytes → List Bytes
  flat : ∀ b, (sched b).flatten = b
  nonempty : ∀ b, NoEmpty (sched b)

/-- **C16 transport independence**: the replies a service writes, and whether the
    connection ends in EOF, error or upgrade, are a function of the request byte
    stream alone: two transports (read schedules) give the same result, and that
    result is `serve` on the NUL-delimited frames of the stream.  Corollary of
    `C02_chunking_invariance` / `handle_spec`. -/
theorem C16_transport_independent (c : Consts) (svc : Service) (dec : Bytes → Frame)
    (t1 t2 : Transport) (stream : Bytes) :
    (handle c svc dec (t1.sched stream)).groups = (handle c svc dec (t2.sched stream)).groups ∧
    (handle c svc dec (t1.sched stream)).status = (handle c svc dec (t2.sched stream)).status ∧
    (handle c svc dec (t1.sched stream)).groups = (serve c svc ((frames stream).1.map dec)).groups ∧
    (handle c svc dec (t1.sched stream)).status = (serve c svc ((frames stream).1.map dec)).status := by
  have hci := C02_chunking_invariance c svc dec (t1.sched stream) (t2.sched stream)
    (t1.nonempty stream) (t2.nonempty stream) (by rw [t1.flat, t2.flat])
  have hs := handle_spec c svc dec (t1.sched stream) (t1.nonempty stream)
  simp only [t1.flat] at hs
  exact ⟨hci.1, hci.2.1, hs.1, hs.2.1⟩

/-- non-vacuity: bytewise delivery and whole-stream delivery are transports -/
def wholeTransport : Transport where
  sched := fun b => if b = [] then [] else [b]
  flat := by intro b; by_cases h : b = [] <;> simp [h]
  nonempty := by
    intro b x hx
    by_cases h : b = []
    · simp [h] at hx
    · simp [h] at hx; subst hx; exact h

def bytewiseTransport : Transport where
  sched := fun b => b.map fun x => [x]
  flat := by
    intro b; induction b with
    | nil => rfl
    | cons x xs ih => simp [ih]
  nonempty := by
    intro b x hx; simp at hx; obtain ⟨a, _, rfl⟩ := hx; simp

example : wholeTransport.sched [1, 2, 0] = [[1, 2, 0]] ∧ bytewiseTransport.sched [1, 2, 0] = [[1], [2], [0]] := by
  decide

end VV
