/-
C08 — generated bindings put exactly the IDL on the wire (client/server round trip).

All theorems quantify over every type environment (every set of typedefs, recursive ones
included), every type expression, every value, every interface definition and call mode;
proofs are by structural recursion on the *value* (mutual with its element lists,
`Lemmas/Gen.lean: rt_val`), which is the well-founded measure here: type definitions may be
recursive (`type T (kids: []T)`), values are finite.

`wellTyped env t v` says that `v` is a value of the Rust type the generator emits for `t`,
**except** the two points at which no value survives JSON (stated and exercised below):
a non-finite float, and `Some(Value::Null)` in an `?object`.
-/
import VarlinkVerif.Model.Gen
import VarlinkVerif.Lemmas.Gen
import VarlinkVerif.Lemmas.GenPred
import VarlinkVerif.Lemmas.GenLoop

namespace VV
open Gen

/-! ### round trip -/

/-- every well-typed value of every type, nested position (`None` ↦ `null`): what the peer decodes
    from the serialised value is the value -/
theorem C08_roundtrip (env : Env) (t : Ty) (v : Val) (h : wellTyped env t v = true) :
    decode env t (encode v) = some v :=
  (rt_val env v).2 t h

/-- the same for a top-level `*_Args` / `*_Reply` / error-args struct, whose `None` members are omitted -/
theorem C08_roundtrip_top (env : Env) (fs : List (String × Ty)) (kvs : List (String × Val))
    (h : wellTyped env (.struct fs) (.record kvs) = true) :
    decodeStruct env fs (encodeTop (.record kvs)) = some (.record kvs) :=
  roundtrip_top env fs kvs h

/-- non-vacuity: a nested, recursive type with every constructor in use -/
example :
    let env : Env := [("Tree", .struct [("v", .int), ("kids", .arr (.ref "Tree")), ("tag", .opt (.enum ["a", "type"]))])]
    let v : Val := .record [("v", .int 1), ("kids", .arr [.record [("v", .int (-2)), ("kids", .arr []), ("tag", .some (.enum "type"))]]), ("tag", .none)]
    wellTyped env (.ref "Tree") v = true ∧ decode env (.ref "Tree") (encode v) = some v := by
  decide

/-! #### the excluded points, exactly -/

/-- a float is excluded iff it is not finite (for every bit pattern) -/
theorem C08_welltyped_float (env : Env) (b : Nat) : wellTyped env .float (.flt b) = finiteBits b := by
  simp [wellTyped, wtElem, wtCore, resolve]

/-- `?object` excludes exactly `Some(null)` (for every JSON value) -/
theorem C08_welltyped_opt_object (env : Env) (j : Json) :
    wellTyped env (.opt .object) (.some (.json j)) = !(j matches .null) := by
  cases j <;> simp [wellTyped, wtElem, wtCore, resolve, isNullJsonVal]

/-- NaN (and ±inf) is written as `null` and rejected by the peer: the full statement fails there -/
theorem C08_roundtrip_counterexample_nonfinite :
    wellTyped [] .float (.flt 0x7ff8000000000000) = false ∧
    encode (.flt 0x7ff8000000000000) = .null ∧
    decode [] .float (encode (.flt 0x7ff8000000000000)) = none := by
  decide

/-- `Some(Value::Null)` in an `?object` arrives as `None` -/
theorem C08_roundtrip_counterexample_opt_object_null :
    wellTyped [] (.opt .object) (.some (.json .null)) = false ∧
    decode [] (.opt .object) (encode (.some (.json .null))) = some .none := by
  decide

/-! ### member names -/

/-- top level: the members on the wire are exactly the IDL field names, in order, minus the fields
    whose value is `None` -/
theorem C08_member_names (env : Env) (fs : List (String × Ty)) (kvs : List (String × Val))
    (h : wellTyped env (.struct fs) (.record kvs) = true) :
    ∃ os, encodeTop (.record kvs) = .obj os ∧
      os.map (·.1) = ((fs.zip kvs).filter (fun p => !(isNone p.2.2))).map (·.1.1) := by
  have hc : wtCore env (.struct fs) (.record kvs) = true := by simpa [wellTyped, wtElem] using h
  obtain ⟨fs', hr, hn, hf⟩ := wtCore_record hc
  have hfs : fs' = fs := by simpa [resolve] using hr.symm
  subst hfs
  refine ⟨encodeTopKV kvs, rfl, ?_⟩
  rw [encodeTopKV_eq, encodeKV_keys]
  clear hc hr h hn
  induction fs' generalizing kvs with
  | nil => cases kvs <;> simp_all [wtFields, dropNone]
  | cons f fs ih =>
    obtain ⟨fn, ft⟩ := f
    cases kvs with
    | nil => simp [wtFields] at hf
    | cons kv kvs =>
      obtain ⟨k, v⟩ := kv
      rw [wtFields_cons] at hf
      simp only [Bool.and_eq_true, beq_iff_eq] at hf
      have := ih kvs hf.2
      by_cases hv : isNone v = true
      · simp_all [dropNone]
      · simp only [Bool.not_eq_true] at hv
        simp_all [dropNone]

/-- nested structs carry every field (a `None` member is `null`, not omitted) -/
theorem C08_member_names_nested (env : Env) (t : Ty) (fs : List (String × Ty)) (kvs : List (String × Val))
    (hr : resolve env t = .struct fs) (h : wtCore env t (.record kvs) = true) :
    ∃ os, encode (.record kvs) = .obj os ∧ os.map (·.1) = fs.map (·.1) := by
  obtain ⟨fs', hr', _, hf⟩ := wtCore_record h
  have : fs' = fs := by rw [hr] at hr'; simpa using hr'.symm
  subst this
  exact ⟨encodeKV kvs, rfl, by rw [encodeKV_keys, wtFields_names hf]⟩

/-! ### shapes -/

/-- enums as their names, maps as objects with the same keys, string sets as objects of `{}`,
    absent optionals as `null` (nested), present optionals as the bare value, arrays as arrays -/
theorem C08_shapes :
    (∀ s, encode (.enum s) = .str s) ∧
    (∀ kvs, ∃ os, encode (.map kvs) = .obj os ∧ os.map (·.1) = kvs.map (·.1)) ∧
    (∀ ks, encode (.set ks) = .obj (ks.map fun k => (k, Json.obj []))) ∧
    (encode .none = .null) ∧
    (∀ v, encode (.some v) = encode v) ∧
    (∀ l, ∃ js, encode (.arr l) = .arr js ∧ js.length = l.length) := by
  refine ⟨fun _ => rfl, fun kvs => ⟨encodeKV kvs, rfl, encodeKV_keys kvs⟩, fun _ => rfl, rfl, fun _ => rfl, ?_⟩
  intro l
  refine ⟨encodeList l, rfl, ?_⟩
  induction l with
  | nil => rfl
  | cons x xs ih => simp [encodeList, ih]

/-- the independent shape checker of the predicate (`Pred/Gen.lean: shapeMatch`, which relates a typed
    value to a JSON text member by member and knows nothing of `encode`) accepts the serialisation of
    every well-typed value of every type: bools/ints/floats/strings as themselves, enums as their name,
    maps as objects with exactly the value's keys, sets as objects of `{}`, `None` as `null`, structs as
    objects with exactly the field names -/
theorem C08_wire_is_idl_shape (env : Env) (t : Ty) (v : Val) (h : wellTyped env t v = true) :
    shapeMatch v (encode v) = true :=
  (shape_val env v).2 t h

/-- top level: the object holds exactly the members whose value is not `None`, each in its shape -/
theorem C08_wire_is_idl_shape_top (env : Env) (fs : List (String × Ty)) (kvs : List (String × Val))
    (h : wellTyped env (.struct fs) (.record kvs) = true) :
    ∃ os, encodeTop (.record kvs) = .obj os ∧ shapeTop kvs os = true := by
  have hc : wtCore env (.struct fs) (.record kvs) = true := by simpa [wellTyped, wtElem] using h
  obtain ⟨fs', hr, hn, hf⟩ := wtCore_record hc
  exact ⟨encodeTopKV kvs, rfl, shape_top env fs' kvs hn hf⟩

/-! ### the request -/

/-- the request the generated client stub sends names `<interface>.<Method>`, for every interface,
    method, argument value and call mode -/
theorem C08_method_name (iface m : String) (args : Val) (mode : Mode) :
    (requestOf iface m args mode).get? "method" = some (.str (iface ++ "." ++ m)) := by
  simp [requestOf, Json.get?, Json.lookup, methodName]

/-- the flags are exactly those of the call mode -/
theorem C08_request_flags (iface m : String) (args : Val) :
    (requestOf iface m args .call).get? "more" = none ∧ (requestOf iface m args .call).get? "oneway" = none ∧
    (requestOf iface m args .more).get? "more" = some (.bool true) ∧
    (requestOf iface m args .oneway).get? "oneway" = some (.bool true) := by
  simp [requestOf, Json.get?, Json.lookup]

/-! ### the server side -/

/-- for every interface whose method names are distinct, every method of it, every call mode and
    every well-typed argument record: the generated dispatch hands the implementation exactly the
    values the generated client was given -/
theorem C08_server_sees_sent (i : IDL) (m : Method) (mode : Mode) (kvs : List (String × Val))
    (hm : m ∈ i.methods) (hd : (i.methods.map (·.name)).Nodup)
    (h : wellTyped i.env (.struct m.input) (.record kvs) = true) :
    dispatch i (methodName i.name m.name)
      (nonNull ((requestOf i.name m.name (.record kvs) mode).get? "parameters")) = .invoke m (.record kvs) :=
  server_sees_sent i m mode kvs hm hd h

/-- non-vacuity of the hypotheses of `C08_server_sees_sent` -/
example :
    let i : IDL := { name := "org.example.x", types := [("K", .enum ["a", "b"])],
                     methods := [⟨"Put", [("k", .ref "K"), ("n", .opt .int)], []⟩], errors := [] }
    let kvs := [("k", Val.enum "b"), ("n", Val.none)]
    wellTyped i.env (.struct [("k", .ref "K"), ("n", .opt .int)]) (.record kvs) = true ∧
    (requestOf i.name "Put" (.record kvs) .more) =
      .obj [("method", .str "org.example.x.Put"), ("more", .bool true), ("parameters", .obj [("k", .str "b")])] := by
  decide

/-! ### replies and errors -/

/-- the reply the implementation passes to `Call_<M>::reply` arrives at the client as the equal
    `<M>_Reply` value, with or without `continues` -/
theorem C08_reply_arrives_equal (i : IDL) (m : Method) (c : Bool) (kvs : List (String × Val))
    (h : wellTyped i.env (.struct m.output) (.record kvs) = true) :
    ∃ v, clientOutcome i m (replyOf m c (.record kvs)) = .ok v ∧ v = .record kvs :=
  reply_arrives i m c kvs h

/-- a declared error passed to `reply_<error>` arrives as the matching variant with equal
    arguments (`None` for an error without parameters) -/
theorem C08_error_arrives_equal (i : IDL) (m : Method) (e : ErrorDef) (kvs : List (String × Val))
    (hfind : i.errors.find? (fun e' => methodName i.name e'.name == methodName i.name e.name) = some e)
    (hsvc : isServiceError (methodName i.name e.name) = false)
    (h : wellTyped i.env (.struct e.parm) (.record kvs) = true) :
    clientOutcome i m (errorReplyOf i.name e false (.record kvs)) =
      .err e.name (if e.parm.isEmpty then none else some (.record kvs)) :=
  error_arrives i m e kvs hfind hsvc h

/-- both halves together -/
theorem C08_reply_and_error_arrive_equal (i : IDL) (m : Method) :
    (∀ c kvs, wellTyped i.env (.struct m.output) (.record kvs) = true →
      clientOutcome i m (replyOf m c (.record kvs)) = .ok (.record kvs)) ∧
    (∀ e kvs, i.errors.find? (fun e' => methodName i.name e'.name == methodName i.name e.name) = some e →
      isServiceError (methodName i.name e.name) = false →
      wellTyped i.env (.struct e.parm) (.record kvs) = true →
      clientOutcome i m (errorReplyOf i.name e false (.record kvs)) =
        .err e.name (if e.parm.isEmpty then none else some (.record kvs))) := by
  refine ⟨fun c kvs h => ?_, fun e kvs hf hs h => C08_error_arrives_equal i m e kvs hf hs h⟩
  obtain ⟨v, hv, rfl⟩ := C08_reply_arrives_equal i m c kvs h
  exact hv

example :
    let i : IDL := { name := "org.example.x", types := [], methods := [⟨"F", [], [("y", .float)]⟩],
                     errors := [⟨"Bad", [("why", .opt .string)]⟩] }
    (i.errors.find? (fun e' => methodName i.name e'.name == methodName i.name "Bad")).map (·.name) = some "Bad" ∧
    isServiceError (methodName i.name "Bad") = false := by
  decide

/-! ### the whole exchange -/

/-- **End to end**, for every interface definition with distinct method and error names (none of the
    errors being one of the four `org.varlink.service` errors), every method, every call mode, every
    well-typed argument record and every script of well-typed replies and declared errors: the request
    on the wire has the method name, the mode's flags and the arguments in IDL shape; the
    implementation sees the arguments sent; every reply frame has the IDL shape of the value the
    implementation passed; the client returns equal values / the matching error variant; a oneway call
    is not answered — i.e. the model's whole predicted observation satisfies the predicate `P_C08_call`
    that the check evaluates on the real implementation's observation of every generated call case. -/
theorem C08_loop_satisfies_predicate (i : IDL) (m : Method) (mode : Mode) (kvs : List (String × Val))
    (script : List Action) (hm : m ∈ i.methods) (hd : (i.methods.map (·.name)).Nodup) (herr : ErrorsOk i)
    (hargs : wellTyped i.env (.struct m.input) (.record kvs) = true)
    (hscript : script.all (actionWellTyped i m) = true) :
    P_C08_call i m mode (.record kvs) script (predictCall i m mode (.record kvs) script) = none :=
  loop_satisfies_P i m mode kvs script hm hd herr hargs hscript

/-- non-vacuity: a streaming call whose last reply is a declared error with parameters -/
example :
    let m : Method := ⟨"Watch", [("path", .string), ("depth", .opt .int)], [("event", .enum ["add", "del"]), ("n", .int)]⟩
    let i : IDL := { name := "org.example.fs", types := [], methods := [m], errors := [⟨"Gone", [("why", .opt .string)]⟩] }
    let kvs := [("path", Val.str "/tmp"), ("depth", Val.none)]
    let script := [Action.reply true (.record [("event", .enum "add"), ("n", .int 1)]),
                   Action.error "Gone" (.record [("why", .some (.str "deleted"))])]
    (i.methods.map (·.name)).Nodup ∧ (i.errors.map (·.name)).Nodup ∧
    (∀ e ∈ i.errors, isServiceError (methodName i.name e.name) = false) ∧
    wellTyped i.env (.struct m.input) (.record kvs) = true ∧ script.all (actionWellTyped i m) = true ∧
    P_C08_call i m .more (.record kvs) script (predictCall i m .more (.record kvs) script) = none := by
  decide

/-! ### missing and ill-typed parameters -/

/-- a method with parameters called without `parameters` is answered with
    `InvalidParameter("parameters")`, and whenever the parameters cannot be decoded as the method's
    argument struct it is answered with `InvalidParameter(<serde message>)` and the connection is
    closed; in neither case is the implementation called -/
theorem C08_invalid_parameter (i : IDL) (m : Method) (full : String)
    (hfind : findMethod i full = some m) (hin : m.input.isEmpty = false) :
    dispatch i full none = .invalidParameter "parameters" false ∧
    (∀ p, decodeStruct i.env m.input p = none → dispatch i full (some p) = .invalidParameter "*" true) ∧
    (∀ p v, decodeStruct i.env m.input p = some v → dispatch i full (some p) = .invoke m v) := by
  refine ⟨?_, ?_, ?_⟩
  · simp [dispatch, hfind, hin]
  · intro p hp; simp [dispatch, hfind, hin, hp]
  · intro p v hp; simp [dispatch, hfind, hin, hp]

/-- what "cannot be decoded" contains at least: a required member is missing, or a member of a
    base type has the wrong JSON kind (for every environment, field list and JSON value) -/
theorem C08_missing_member_rejected (env : Env) (fs : List (String × Ty)) (kvs : List (String × Json))
    (f : String) (ft : Ty) (hf : (f, ft) ∈ fs) (hopt : isOpt ft = false)
    (hmiss : ∀ p ∈ kvs, p.1 ≠ f) : decodeStruct env fs (.obj kvs) = none := by
  unfold decodeStruct decodeCore
  simp only [resolve]
  cases hd : decodeMembers env fs kvs with
  | none => simp
  | some dec =>
    -- the decoded list only has keys of `kvs`
    have hkeys : ∀ (kvs : List (String × Json)) (dec : List (String × Val)),
        decodeMembers env fs kvs = some dec → ∀ p ∈ dec, ∃ q ∈ kvs, q.1 = p.1 := by
      intro kvs
      induction kvs with
      | nil => intro dec h; simp [decodeMembers] at h; subst h; simp
      | cons kv kvs ih =>
        obtain ⟨k, x⟩ := kv
        intro dec h p hp
        simp only [decodeMembers] at h
        split at h
        · obtain ⟨q, hq, hqe⟩ := ih dec h p hp
          exact ⟨q, List.mem_cons_of_mem _ hq, hqe⟩
        · split at h
          · rename_i v vs _ hvs
            simp only [Option.some.injEq] at h
            subst h
            rcases List.mem_cons.mp hp with rfl | hp'
            · exact ⟨(k, x), List.mem_cons_self .., rfl⟩
            · obtain ⟨q, hq, hqe⟩ := ih vs hvs p hp'
              exact ⟨q, List.mem_cons_of_mem _ hq, hqe⟩
          · simp at h
    have hlk : dec.lookup f = none := by
      apply lookup_none_of_notin
      intro p hp
      obtain ⟨q, hq, hqe⟩ := hkeys kvs dec hd p hp
      rw [← hqe]; exact hmiss q hq
    have hasm : assemble fs dec = none := by
      clear hd hkeys
      induction fs with
      | nil => simp at hf
      | cons g gs ih =>
        obtain ⟨gn, gt⟩ := g
        rcases List.mem_cons.mp hf with heq | hin
        · cases heq
          simp [assemble, hlk, hopt]
        · have := ih hin
          simp only [assemble, this]
          split <;> simp_all
    simp [hasm]

/-- "ill-typed", as the predicate `P_C08_raw` uses it on the implementation's observations (the
    parameters are not an object/array, or a required member is missing, or a member has the wrong JSON
    kind for its bool/int/float/string/array/map/enum/struct type), is rejected by the decoder for
    every environment, field list (distinct names) and JSON value — so the dispatch answers
    `InvalidParameter` (`C08_invalid_parameter`) -/
theorem C08_ill_typed_rejected (env : Env) (fs : List (String × Ty)) (j : Json)
    (hn : keysNodup fs = true) (h : strictIllStruct env fs j = true) : decodeStruct env fs j = none := by
  cases j with
  | obj kvs =>
    simp only [strictIllStruct, List.any_eq_true] at h
    obtain ⟨⟨f, ft⟩, hmem, hcond⟩ := h
    cases hl : jlookup f kvs with
    | none =>
      simp only [hl, Bool.not_eq_true'] at hcond
      exact C08_missing_member_rejected env fs kvs f ft hmem hcond (lookup_none_notin f kvs hl)
    | some x =>
      simp only [hl] at hcond
      have hbad : optWrap ft x (fun t => decodeCore env t x) = none := by
        cases ft with
        | opt t' =>
          simp only [Bool.and_eq_true, Bool.not_eq_true'] at hcond
          have hne : x ≠ .null := by intro e; subst e; simp at hcond
          rw [optWrap_opt_ne _ _ _ hne, decodeCore_none_of_mismatch env t' x hcond.2]; rfl
        | _ =>
          rw [optWrap_nonopt _ _ _ (by simp [isOpt])]
          exact decodeCore_none_of_mismatch env _ x hcond
      have := decodeMembers_none_of_bad env fs f ft x (lookupTy_of_mem hn hmem) hbad kvs hl
      unfold decodeStruct decodeCore
      simp [resolve, this]
  | arr l => simp [strictIllStruct] at h
  | null => simp [decodeStruct, decodeCore, resolve]
  | bool b => simp [decodeStruct, decodeCore, resolve]
  | int n => simp [decodeStruct, decodeCore, resolve]
  | flt b => simp [decodeStruct, decodeCore, resolve]
  | str s => simp [decodeStruct, decodeCore, resolve]

end VV
