/-
C10 — formatting an interface definition preserves it and is idempotent; the colored
rendering is the plain one plus escape sequences.

`Fmt.multiline i indent max` / `Fmt.multilineC` model `IDL::get_multiline` /
`get_multiline_colored` (Model/IdlFormat.lean, format.rs line by line, `colored` 2.2.0 paint
included); `Display` and `varlink format -c W` are `multiline i 0 80` / `multiline i 0 W`.
-/
import VarlinkVerif.Model.Idl
import VarlinkVerif.Model.IdlFormat
import VarlinkVerif.Lemmas.IdlFmtSeg
import VarlinkVerif.Lemmas.IdlFmtSquash
import VarlinkVerif.Lemmas.IdlWFNoEsc

namespace VV
open Idl Idl.Fmt

/-- **C10 round trip**: for EVERY text `s` that `try_from` accepts (any trivia, comments, line
    terminators, nesting) with result `i`, and EVERY width `max`, the top-level formatted text
    `get_multiline(0, max)` is accepted again, and the definition `i'` it yields has the same
    interface name, the same interface documentation, and — kind by kind, in the same order — the
    same members: names, documentation, field names and types (`tList`/`mList`/`eList` are the
    members under `typedef_keys`/`method_keys`/`error_keys`, in key order); the key lists agree. -/
theorem C10_roundtrip (s : Input) (i : IDL) (h : tryFrom s = .ok i) (max : Nat) :
    ∃ i', tryFrom (multiline i 0 max) = .ok i' ∧ i'.name = i.name ∧ i'.doc = i.doc ∧
      tList i' = tList i ∧ mList i' = mList i ∧ eList i' = eList i := by
  have hw := wf_of_tryFrom h
  obtain ⟨h1, h2, h3, h4, h5, _⟩ := fromToken_regroup i hw
  exact ⟨fromToken (regroup i), (roundtrip i hw max).1, h1, h2, h3, h4, h5⟩

/-- **C10 idempotence**: formatting the re-parsed definition at the same width reproduces the text
    exactly (character for character), for every accepted text and every width; hence the formatted
    text is a fixed point of parse-then-format. -/
theorem C10_idempotent (s : Input) (i : IDL) (h : tryFrom s = .ok i) (max : Nat) :
    ∃ i', tryFrom (multiline i 0 max) = .ok i' ∧ multiline i' 0 max = multiline i 0 max := by
  have hw := wf_of_tryFrom h
  exact ⟨fromToken (regroup i), (roundtrip i hw max).1, (roundtrip i hw max).2⟩

/-- the two theorems for `Display` / `to_string()` (width 80) -/
theorem C10_display_roundtrip (s : Input) (i : IDL) (h : tryFrom s = .ok i) :
    ∃ i', tryFrom (display i) = .ok i' ∧ display i' = display i :=
  C10_idempotent s i h 80

/-- the layout step behind the round trip: for every accepted definition and every width the
    formatted text is a text the declarative grammar (`Gram.FileText`) derives for the definition
    regrouped by kind (typedefs, methods, errors) -/
theorem C10_layout (s : Input) (i : IDL) (h : tryFrom s = .ok i) (max : Nat) :
    Gram.FileText (regroup i) (multiline i 0 max) :=
  file_layout i (wf_of_tryFrom h) max

/-- non-vacuity: an accepted text with comments, a TAB in front of a comment and interleaved kinds -/
example : (match tryFrom "# doc\ninterface a.b\n\t# tab\nmethod M(a: int) -> ()\ntype T (x, y)".toList with
    | .ok _ => true | _ => false) = true := by decide

/-- **C10 colored = plain + escapes**: for every accepted definition, with ARBITRARY documentation
    text (escape sequences, unfinished sequences and resets inside comments included) and every
    width, removing the SGR sequences `ESC [ (digit|;)* m` from the colored top-level rendering
    gives exactly what removing them from the plain rendering gives. -/
theorem C10_colored_is_plain_plus_escapes (s : Input) (i : IDL) (h : tryFrom s = .ok i) (max : Nat) :
    stripSGR (multilineC i 0 max) = stripSGR (multiline i 0 max) :=
  (seg_multiline i (idlNoEsc_of_wf (wf_of_tryFrom h)) max).strip

/-- the same for every definition value whose names contain no ESC character -/
theorem C10_colored_general (i : IDL) (h : IdlNoEsc i) (max : Nat) :
    stripSGR (multilineC i 0 max) = stripSGR (multiline i 0 max) :=
  (seg_multiline i h max).strip

/-- the paint lemma behind it, for every text and every scanner state: `ESC[<c>m` + text with the
    style re-inserted after every inner reset + `ESC[0m`, followed by a newline, scans like the
    text followed by a newline -/
theorem C10_paint_transparent (x : Str) : stripSGR (blue x ++ ['\n']) = stripSGR (x ++ ['\n']) :=
  (seg_paint_break _ params34 breaks_nl x).strip

/-- when additionally the documentation contains no ESC, the plain rendering contains none and
    stripping is the identity on it -/
theorem C10_strip_plain_id (p : Str) (h : NoEsc p) : stripSGR p = p := by
  simp [stripSGR, stripAux_feed, feed_noEsc p h]

/-- non-vacuity: a comment containing a reset sequence and an unfinished sequence -/
example :
    stripSGR (blue [ESC, '[', '0', 'm', 'x', ESC, '[', '3'] ++ ['\n']) = ['x', ESC, '[', '3', '\n'] ∧
    blue [ESC, '[', '0', 'm', 'x'] = [ESC, '[', '3', '4', 'm', ESC, '[', '0', 'm', ESC, '[', '3', '4', 'm', 'x', ESC, '[', '0', 'm'] := by
  decide

/-- **C10 width independence**: for every definition, all indents and all widths, the rendering
    differs only in spaces and newlines — deleting them gives the one-line form.  Hence every
    width yields the same sequence of non-blank characters (tokens contain no blanks). -/
theorem C10_width_only_moves_blanks (i : IDL) (indent max : Nat) :
    squash (multiline i indent max) = squash (oneline i) :=
  squash_multiline i indent max

theorem C10_width_independent (i : IDL) (w1 w2 : Nat) :
    squash (multiline i 0 w1) = squash (multiline i 0 w2) := by
  rw [squash_multiline, squash_multiline]

/-- **no ambient state**: the rendering is a function of the definition and the width alone — of the
    name, the documentation and the three member lists, nothing else (no process-wide switch, no
    earlier or concurrent call).  This is why the concurrent cases of suite `fmt` (N threads rendering
    at once with colour forced on) expect, for every thread, simply the sequential value, and why
    `varlink format FILE` must print `multiline` of the definition parsed from the file's bytes. -/
theorem C10_depends_only_on_definition (i i' : IDL) (h1 : i'.name = i.name) (h2 : i'.doc = i.doc)
    (h3 : tList i' = tList i) (h4 : mList i' = mList i) (h5 : eList i' = eList i) (indent max : Nat) :
    multiline i' indent max = multiline i indent max :=
  multiline_congr i i' h1 h2 h3 h4 h5 indent max

/-- `Display` is the width-80 rendering -/
theorem C10_display (i : IDL) : display i = multiline i 0 80 := rfl

end VV
