/-
C10 — formatting an interface definition preserves it and is idempotent; the colored
rendering is the plain one plus escape sequences.

`Fmt.multiline i indent max` / `Fmt.multilineC` model `IDL::get_multiline` /
`get_multiline_colored` (Model/IdlFormat.lean, format.rs line by line, `colored` 2.2.0 paint
included); `Display` and `varlink format -c W` are `multiline i 0 80` / `multiline i 0 W`.
-/
import VarlinkVerif.Model.Idl
import VarlinkVerif.Model.IdlFormat
import VarlinkVerif.Lemmas.IdlFmtSeg
import VarlinkVerif.Lemmas.IdlFmtSquash

namespace VV
open Idl Idl.Fmt

/-- **C10 colored = plain + escapes**: for every definition whose names contain no ESC character
    (true of every parsed definition: names are letters, digits, '_', '.', '-'), with ARBITRARY
    documentation text (escape sequences, partial sequences and resets inside comments included)
    and every width, removing the SGR sequences `ESC [ (digit|;)* m` from the colored top-level
    rendering gives exactly what removing them from the plain rendering gives. -/
theorem C10_colored_is_plain_plus_escapes (i : IDL) (h : IdlNoEsc i) (max : Nat) :
    stripSGR (multilineC i 0 max) = stripSGR (multiline i 0 max) :=
  (seg_multiline i h max).strip

/-- the paint lemma behind it, for every text and every scanner state: `ESC[<c>m` + text with the
    style re-inserted after every inner reset + `ESC[0m`, followed by a newline, scans like the
    text followed by a newline -/
theorem C10_paint_transparent (x : Str) : stripSGR (blue x ++ ['\n']) = stripSGR (x ++ ['\n']) :=
  (seg_paint_break _ params34 breaks_nl x).strip

/-- when additionally the documentation contains no ESC, the plain rendering contains none and
    stripping is the identity on it -/
theorem C10_strip_plain_id (p : Str) (h : NoEsc p) : stripSGR p = p := by
  simp [stripSGR, stripAux_feed, feed_noEsc p h]

/-- non-vacuity: a comment containing a reset sequence and an unfinished sequence -/
example :
    stripSGR (blue [ESC, '[', '0', 'm', 'x', ESC, '[', '3'] ++ ['\n']) = ['x', ESC, '[', '3', '\n'] ∧
    blue [ESC, '[', '0', 'm', 'x'] = [ESC, '[', '3', '4', 'm', ESC, '[', '0', 'm', ESC, '[', '3', '4', 'm', 'x', ESC, '[', '0', 'm'] := by
  decide

/-- **C10 width independence**: for every definition, all indents and all widths, the rendering
    differs only in spaces and newlines — deleting them gives the one-line form.  Hence every
    width yields the same sequence of non-blank characters (tokens contain no blanks). -/
theorem C10_width_only_moves_blanks (i : IDL) (indent max : Nat) :
    squash (multiline i indent max) = squash (oneline i) :=
  squash_multiline i indent max

theorem C10_width_independent (i : IDL) (w1 w2 : Nat) :
    squash (multiline i 0 w1) = squash (multiline i 0 w2) := by
  rw [squash_multiline, squash_multiline]

/-- `Display` is the width-80 rendering -/
theorem C10_display (i : IDL) : display i = multiline i 0 80 := rfl

end VV
