/-
C01 — every request is answered in order, exactly once, under pipelining.

`serve` attributes to every consumed frame the group of replies it caused
(ghost data; the wire carries `groups.flatten`).  "In order" is positional:
`groups[i]` belongs to `fs[i]`.  `C01_handle_refines_serve` says that the byte
level `handle`, for *every* read schedule of the underlying reader (every
pipelining depth, every segmentation), produces exactly `serve` of the frames
of the stream.
-/
import VarlinkVerif.Lemmas.Wire
import VarlinkVerif.Props.C04

namespace VV

/-- the replies to one request: nothing for oneway, otherwise `continues*`
    followed by exactly one final reply -/
def GroupOK (r : Request) (g : List Reply) : Prop :=
  if isOneway r = true then g = []
  else ∃ cs f, g = cs ++ [f] ∧ (∀ x ∈ cs, x.continues = some true) ∧ f.continues ≠ some true

/-- a method implementation is *proper* when, whenever it returns `Ok`, it has
    produced such a group (it may also fail: then the connection is closed) -/
def ProperScript (script : Request → List Act) : Prop :=
  ∀ r, (runActs r (script r) {}).2 = true → GroupOK r (runActs r (script r) {}).1.out

def ProperSvc (svc : Service) : Prop := ∀ i ∈ svc.ifaces, ProperScript i.script

theorem single_reply_groupOK (req : Request) (r : Reply) (hr : r.continues = none) :
    (runActs req [.reply r] {}).2 = true ∧ GroupOK req (runActs req [.reply r] {}).1.out := by
  by_cases ho : isOneway req = true
  · simp [runActs, replyStruct, ho, GroupOK]
  · simp only [runActs, replyStruct, GroupOK, ho]
    simp
    exact ⟨[], r, by simp, by simp, by simp [hr]⟩

theorem replyParameters_groupOK (req : Request) (p : Json) :
    GroupOK req (replyParameters req {} p).out := by
  by_cases ho : isOneway req = true
  · simp [replyParameters, ho, GroupOK]
  · simp only [replyParameters, GroupOK, ho]
    simp
    exact ⟨[], Reply.params (some p), by simp, by simp, by simp [Reply.params]⟩

theorem replyStruct_upgraded (req : Request) (st st' : CallSt) (r : Reply)
    (e : replyStruct req st r = some st') : st'.upgraded = st.upgraded := by
  unfold replyStruct at e
  repeat' split at e
  all_goals simp at e
  all_goals subst e; rfl

theorem single_reply_upgraded (req : Request) (r : Reply) (st : CallSt) :
    (runActs req [.reply r] st).1.upgraded = st.upgraded := by
  simp only [runActs]
  cases e : replyStruct req st r with
  | none => rfl
  | some st' => exact replyStruct_upgraded req st st' r e

/-- the built-in interface does one of three things -/
theorem builtinCall_cases (c : Consts) (svc : Service) (req : Request) (st : CallSt) :
    (∃ p, builtinCall c svc req st = (replyParameters req st p, true)) ∨
    builtinCall c svc req st = (st, false) ∨
    (∃ r, r.continues = none ∧ builtinCall c svc req st = runActs req [.reply r] st) := by
  unfold builtinCall
  repeat' split
  all_goals first
    | exact Or.inl ⟨_, rfl⟩
    | exact Or.inr (Or.inl rfl)
    | exact Or.inr (Or.inr ⟨_, rfl, rfl⟩)

theorem builtinCall_proper (c : Consts) (svc : Service) (req : Request) :
    (builtinCall c svc req {}).1.upgraded = false ∧
    ((builtinCall c svc req {}).2 = true → GroupOK req (builtinCall c svc req {}).1.out) := by
  rcases builtinCall_cases c svc req {} with ⟨p, e⟩ | e | ⟨r, hr, e⟩
  · rw [e]; refine ⟨?_, fun _ => replyParameters_groupOK req p⟩
    simp only [replyParameters]; split <;> rfl
  · rw [e]; exact ⟨rfl, fun h => by simp at h⟩
  · rw [e]; exact ⟨single_reply_upgraded req r {}, fun _ => (single_reply_groupOK req r hr).2⟩

theorem callOne_nodot (c : Consts) (svc : Service) (req : Request) (h : ifaceOf req.method = none) :
    callOne c svc req =
      { out := (runActs req [.reply (errInterfaceNotFound req.method)] {}).1.out,
        ok := (runActs req [.reply (errInterfaceNotFound req.method)] {}).2,
        upgraded := none } := by
  simp only [callOne, h]

theorem callOne_route (c : Consts) (svc : Service) (req : Request) (i : String)
    (h : ifaceOf req.method = some i) :
    callOne c svc req =
      { out := (routeCall c svc i req {}).1.out,
        ok := (routeCall c svc i req {}).2,
        upgraded := if (routeCall c svc i req {}).2 && (routeCall c svc i req {}).1.upgraded
          then some i else none } := by
  simp only [callOne, h]

theorem routeCall_svc (c : Consts) (svc : Service) (req : Request) (st : CallSt) :
    routeCall c svc svcName req st = builtinCall c svc req st := by
  simp [routeCall]

theorem routeCall_none (c : Consts) (svc : Service) (req : Request) (st : CallSt) (i : String)
    (hne : i ≠ svcName) (hl : svc.lookup i = none) :
    routeCall c svc i req st = runActs req [.reply (errInterfaceNotFound i)] st := by
  have hb : (i == svcName) = false := by simpa using hne
  simp [routeCall, hb, hl]

theorem routeCall_some (c : Consts) (svc : Service) (req : Request) (st : CallSt) (i : String)
    (ifc : Iface) (hne : i ≠ svcName) (hl : svc.lookup i = some ifc) :
    routeCall c svc i req st = runActs req (ifc.script req) st := by
  have hb : (i == svcName) = false := by simpa using hne
  simp [routeCall, hb, hl]

/-- **C01 (library paths)**: the built-in interface and every library-originated
    error path answer with exactly one final reply whenever they return `Ok`,
    and never upgrade — no hypothesis on user code. -/
theorem C01_library_replies_proper (c : Consts) (svc : Service) (req : Request) :
    (ifaceOf req.method = none →
      (callOne c svc req).ok = true ∧ (callOne c svc req).upgraded = none ∧
      GroupOK req (callOne c svc req).out) ∧
    (∀ i, ifaceOf req.method = some i → i ≠ svcName → svc.lookup i = none →
      (callOne c svc req).ok = true ∧ (callOne c svc req).upgraded = none ∧
      GroupOK req (callOne c svc req).out) ∧
    (ifaceOf req.method = some svcName →
      (callOne c svc req).upgraded = none ∧
      ((callOne c svc req).ok = true → GroupOK req (callOne c svc req).out)) := by
  refine ⟨?_, ?_, ?_⟩
  · intro h
    have := single_reply_groupOK req (errInterfaceNotFound req.method) rfl
    rw [callOne_nodot c svc req h]
    exact ⟨this.1, rfl, this.2⟩
  · intro i h hne hl
    have := single_reply_groupOK req (errInterfaceNotFound i) rfl
    have hu := single_reply_upgraded req (errInterfaceNotFound i) {}
    rw [callOne_route c svc req i h, routeCall_none c svc req {} i hne hl]
    refine ⟨this.1, ?_, this.2⟩
    simp only [hu]; simp
  · intro h
    have := builtinCall_proper c svc req
    rw [callOne_route c svc req svcName h, routeCall_svc]
    refine ⟨?_, this.2⟩
    simp only [this.1]; simp

theorem callOne_groupOK (c : Consts) (svc : Service) (hs : ProperSvc svc) (req : Request)
    (hok : (callOne c svc req).ok = true) : GroupOK req (callOne c svc req).out := by
  have lib := C01_library_replies_proper c svc req
  cases hi : ifaceOf req.method with
  | none => exact (lib.1 hi).2.2
  | some i =>
    by_cases hb : i = svcName
    · subst hb; exact (lib.2.2 hi).2 hok
    · cases hl : svc.lookup i with
      | none => exact (lib.2.1 i hi hb hl).2.2
      | some ifc =>
        have hmem : ifc ∈ svc.ifaces := by
          have := List.mem_of_find?_eq_some hl
          simpa using this
        rw [callOne_route c svc req i hi, routeCall_some c svc req {} i ifc hb hl] at hok ⊢
        exact hs ifc hmem req hok

/-- **C01**: for every service whose method implementations are proper and
    every frame list (any length, any mix of request kinds and flags):
    * groups are positional (`groups[i]` answers `fs[i]`) and there are never
      more groups than frames;
    * every group except possibly the last one of a connection that is being
      closed is well-formed (nothing for oneway, else `continues*` + one final);
    * if some frame got no group, the connection did not stay open in varlink
      mode (`status ≠ eof`): nothing is skipped silently. -/
theorem C01_groups_in_order (c : Consts) (svc : Service) (hs : ProperSvc svc) :
    ∀ (fs : List Frame),
      let o := serve c svc fs
      o.groups.length ≤ fs.length ∧
      (∀ i g, o.groups[i]? = some g →
        ∃ r, fs[i]? = some (.req r) ∧
          ((i + 1 < o.groups.length ∨ o.status ≠ .err) → GroupOK r g)) ∧
      (o.groups.length < fs.length → o.status ≠ .eof) := by
  intro fs
  induction fs with
  | nil => simp [serve]
  | cons f fs ih =>
    cases f with
    | bad => simp [serve]
    | req r =>
      simp only [serve]
      by_cases hok : (callOne c svc r).ok = true
      · simp only [hok, Bool.not_true, Bool.false_eq_true, if_false]
        have hg := callOne_groupOK c svc hs r hok
        cases hup : (callOne c svc r).upgraded with
        | some i =>
          simp only
          refine ⟨by simp, ?_, by simp⟩
          intro j g hj
          cases j with
          | zero => simp at hj; subst hj; exact ⟨r, by simp, fun _ => hg⟩
          | succ j => simp at hj
        | none =>
          simp only
          obtain ⟨h1, h2, h3⟩ := ih
          refine ⟨by simp; omega, ?_, ?_⟩
          · intro j g hj
            cases j with
            | zero => simp at hj; subst hj; exact ⟨r, by simp, fun _ => hg⟩
            | succ j =>
              simp at hj
              obtain ⟨r', e1, e2⟩ := h2 j g hj
              refine ⟨r', by simpa using e1, ?_⟩
              intro hcond
              apply e2
              cases hcond with
              | inl h => left; simp at h; omega
              | inr h => right; exact h
          · intro hlt
            apply h3
            simp at hlt; omega
      · have hok' : (callOne c svc r).ok = false := by simpa using hok
        simp only [hok', Bool.not_false, if_true]
        refine ⟨by simp, ?_, by simp⟩
        intro j g hj
        cases j with
        | zero =>
          refine ⟨r, by simp, ?_⟩
          intro hcond
          cases hcond with
          | inl h => simp at h
          | inr h => simp at h
        | succ j => simp at hj

/-- **C01 (byte level)**: whatever the read schedule of the underlying reader —
    one request per read, all requests in one read, cuts anywhere — `handle`
    produces the groups and the status of `serve` on the frames of the stream.
    Pipelining depth is not a parameter of the outcome. -/
theorem C01_handle_refines_serve (c : Consts) (svc : Service) (dec : Bytes → Frame)
    (reads : List Bytes) (hne : NoEmpty reads) :
    (handle c svc dec reads).groups = (serve c svc ((frames reads.flatten).1.map dec)).groups ∧
    (handle c svc dec reads).status = (serve c svc ((frames reads.flatten).1.map dec)).status := by
  have := handle_spec c svc dec reads hne
  exact ⟨this.1, this.2.1⟩

/-- non-vacuity: a service with a streaming script is proper, and a pipelined
    stream with a no-dot request in front is fully answered -/
example :
    let c : Consts := { serviceDesc := "" }
    let svc : Service := { vendor := "", product := "", version := "", url := "", ifaces := [] }
    let fs := [Frame.req { method := "nodot" }, Frame.req { method := "org.varlink.service.GetInfo" }]
    ProperSvc svc ∧ (serve c svc fs).groups.length = 2 ∧ (serve c svc fs).status = .eof := by
  refine ⟨?_, by decide, by decide⟩
  intro i hi; simp at hi

end VV
