/-
C02 — message framing does not depend on how the byte stream is segmented;
an upgrade hands over every later byte exactly once.

`reads` is the sequence of results of the `read` calls of the underlying
reader (socket segmentation, chunked in-memory reader, 8 KiB refills, ...);
`chunks` is the sequence of pieces a caller feeds into successive `handle`
calls, prepending the returned tail (the documented protocol).
-/
import VarlinkVerif.Lemmas.Wire
import VarlinkVerif.Lemmas.UpgradedLoop
import VarlinkVerif.Model.ListenWorker

namespace VV

/-- **C02 chunking invariance**: two read schedules of the same byte stream
    give the same replies, the same status and the same tail. -/
theorem C02_chunking_invariance (c : Consts) (svc : Service) (dec : Bytes → Frame)
    (r1 r2 : List Bytes) (h1 : NoEmpty r1) (h2 : NoEmpty r2) (he : r1.flatten = r2.flatten) :
    (handle c svc dec r1).groups = (handle c svc dec r2).groups ∧
    (handle c svc dec r1).status = (handle c svc dec r2).status ∧
    ((handle c svc dec r1).status ≠ .err →
      (handle c svc dec r1).tail ++ (handle c svc dec r1).rest.flatten =
      (handle c svc dec r2).tail ++ (handle c svc dec r2).rest.flatten) := by
  have s1 := handle_spec c svc dec r1 h1
  have s2 := handle_spec c svc dec r2 h2
  simp only [he] at s1
  obtain ⟨g1, st1, e1, _, u1⟩ := s1
  obtain ⟨g2, st2, e2, _, u2⟩ := s2
  refine ⟨by rw [g1, g2], by rw [st1, st2], ?_⟩
  intro hne
  cases hs : (serve c svc ((frames r2.flatten).1.map dec)).status with
  | err => rw [st1, hs] at hne; simp at hne
  | eof =>
    have a := e1 hs
    have b := e2 hs
    rw [a.1, a.2, b.1, b.2]
  | upgraded i => rw [u1 i hs, u2 i hs]

/-- **C02 tail**: when `handle` returns in varlink mode, the returned tail is
    exactly the bytes after the last complete NUL-terminated message (it
    contains no NUL, and the stream is its frames followed by it), and the
    reader has been drained. -/
theorem C02_tail_is_suffix_after_last_nul (c : Consts) (svc : Service) (dec : Bytes → Frame)
    (reads : List Bytes) (hne : NoEmpty reads) (hs : (handle c svc dec reads).status = .eof) :
    (handle c svc dec reads).tail = (frames reads.flatten).2 ∧
    (0 : UInt8) ∉ (handle c svc dec reads).tail ∧
    unframes (frames reads.flatten).1 (handle c svc dec reads).tail = reads.flatten ∧
    (handle c svc dec reads).rest = [] := by
  have s := handle_spec c svc dec reads hne
  obtain ⟨_, st, e, _, _⟩ := s
  rw [st] at hs
  have := e hs
  rw [this.1]
  exact ⟨rfl, frames_tail_no_nul _, unframes_frames _, this.2⟩

/-- **C02 upgrade (handle API)**: when a call upgrades the connection, the bytes
    `handle` returns together with what it left in the reader are exactly the
    stream after the upgrading request — every byte, in order, once — for every
    read schedule. -/
theorem C02_upgrade_hands_over_all (c : Consts) (svc : Service) (dec : Bytes → Frame)
    (reads : List Bytes) (hne : NoEmpty reads) (i : String)
    (hs : (handle c svc dec reads).status = .upgraded i) :
    (handle c svc dec reads).tail ++ (handle c svc dec reads).rest.flatten =
      afterFrames (serve c svc ((frames reads.flatten).1.map dec)).consumed reads.flatten := by
  have s := handle_spec c svc dec reads hne
  obtain ⟨_, st, _, _, u⟩ := s
  rw [st] at hs
  exact u i hs

/-- **C02 feed = whole**: feeding the chunks one at a time through the
    documented loop (only the returned tail is prepended to the next chunk;
    in-memory reader refilled `cap` bytes at a time) yields the replies and the
    status of one call on the whole stream under any read schedule; in varlink
    mode the final tail is the same; after an upgrade — provided the loop did
    not have to drop bytes that `handle` left unread in a per-step reader
    (`dropped = []`, see the two theorems below) — the bytes seen by the
    upgraded handler plus the pending tail are exactly the stream after the
    upgrading request. -/
theorem C02_feed_eq_whole (c : Consts) (svc : Service) (dec : Bytes → Frame) (cap : Nat)
    (hc : 0 < cap) (chunks reads : List Bytes) (hne : NoEmpty reads)
    (he : reads.flatten = chunks.flatten) :
    let f := feed c svc dec cap chunks
    let h := handle c svc dec reads
    f.out = h.groups.flatten ∧ f.status = h.status ∧
    (h.status = .eof → f.tail = h.tail) ∧
    (∀ i, h.status = .upgraded i → f.dropped = [] → f.seen ++ f.tail = h.tail ++ h.rest.flatten) := by
  have fi := feed_inv c svc dec cap hc chunks
  have s := handle_spec c svc dec reads hne
  simp only [he] at s
  obtain ⟨g, st, e, _, u⟩ := s
  unfold FeedInv at fi
  obtain ⟨fo, fs⟩ := fi
  simp only at fo fs ⊢
  refine ⟨by rw [fo, g], ?_, ?_, ?_⟩
  · rw [st]
    cases hs : (serve c svc ((frames chunks.flatten).1.map dec)).status with
    | eof => rw [hs] at fs; exact fs.1
    | err => rw [hs] at fs; exact fs.1
    | upgraded i => rw [hs] at fs; exact fs.1
  · intro hs
    rw [st] at hs
    rw [hs] at fs
    rw [(e hs).1, fs.2.1]
  · intro i hs hd
    rw [st] at hs
    rw [hs] at fs
    rw [u i hs, fs.2.2.2 hd]

/-- **C02 nothing is lost (partial)**: when the stream is no longer than the
    internal buffer, every input of every `handle` call is read in one piece,
    nothing stays behind in the caller's reader and the documented loop hands
    every byte after an upgrading request to the upgraded handler. -/
theorem C02_feed_upgrade_complete_partial (c : Consts) (svc : Service) (dec : Bytes → Frame) (cap : Nat)
    (hc : 0 < cap) (chunks : List Bytes) (hfit : chunks.flatten.length ≤ cap) :
    (feed c svc dec cap chunks).dropped = [] := by
  have := feed_nothing_dropped c svc dec cap hc chunks {} 0 rfl (by simp) (by omega)
  simpa [feed] using this

/-- **C02 counterexample to the unrestricted statement**: with a 4-byte buffer,
    an upgrading request followed in the same chunk by 6 more bytes leaves 4 of
    them unread in the caller's slice; the documented loop (which feeds only
    the returned tail again) loses them.  With the real 8 KiB buffer this needs
    more than 8 KiB behind an upgrade request in one chunk — recorded as a
    known finding, not repaired (handle() cannot drain a blocking reader). -/
theorem C02_feed_upgrade_counterexample :
    let c : Consts := { serviceDesc := "" }
    let up : Iface := { name := "a", desc := "", script := fun _ => [.toUpgraded, .reply (Reply.params none)] }
    let svc : Service := { vendor := "", product := "", version := "", url := "", ifaces := [up] }
    let dec : Bytes → Frame := fun _ => .req { method := "a.U", upgrade := some true }
    (feed c svc dec 4 [[1, 0, 5, 6, 7, 8, 9, 10]]).dropped = [7, 8, 9, 10] ∧
    (feed c svc dec 4 [[1, 0, 5, 6, 7, 8, 9, 10]]).tail = [5, 6] := by
  decide

/-- **C02 upgraded mode, exactly once and in order (listen worker)**: after the switch `listen`'s worker calls
    `handle()` repeatedly on `chain(unread, reader)`.  Whatever the upgraded handler does — however much it
    pulls per call, however much of it it processes, whatever it hands back — and however the stream is
    segmented, at every moment  processed ++ handed back ++ not yet read  is exactly the byte stream that
    followed the upgrading request: nothing is skipped, repeated or reordered. -/
theorem C02_upgraded_loop_exactly_once (p : UpPolicy) (fuel : Nat) (tail : Bytes) (rest : List Bytes) :
    (p.loop fuel tail rest).1.flatten ++ (p.loop fuel tail rest).2.1 ++ (p.loop fuel tail rest).2.2.flatten
      = tail ++ rest.flatten :=
  p.loop_conserves fuel tail rest

/-- **C02 upgraded mode, records**: a handler that takes records (lines) as they become complete and hands the
    unfinished one back processes, over the whole connection, exactly the complete records of the stream and is
    left with the unfinished one — for every segmentation, and wherever `handle()`'s buffer happened to end. -/
theorem C02_upgraded_records (tail : Bytes) (rest : List Bytes) :
    (ListenWorker.upgradedPhase linePolicy tail rest).1.flatten = throughLastNl (tail ++ rest.flatten) ∧
    (ListenWorker.upgradedPhase linePolicy tail rest).2 = afterLastNl (tail ++ rest.flatten) := by
  unfold ListenWorker.upgradedPhase
  simp only [workerUnread_upgraded, handOverAtOnce_spec]
  by_cases h : (!tail.isEmpty || !rest.isEmpty) = true
  · simp only [h, if_true]
    obtain ⟨h1, h2, _⟩ := lineLoop_spec' (rest.length + 2) tail rest (by omega)
    exact ⟨h1, h2⟩
  · have ht : tail = [] := by
      cases tail with
      | nil => rfl
      | cons a t => simp at h
    have hr : rest = [] := by
      cases rest with
      | nil => rfl
      | cons a t => simp at h
    subst ht; subst hr
    simp [throughLastNl, afterLastNl]

/-- **C02 upgraded mode, the worker's bookkeeping as written in server.rs** (definitions regenerated from the
    source on every run): the connection closure recognises the switch to upgraded mode exactly once, keeps the
    bytes a `handle()` call returns whenever the connection is upgraded (not only at the switch), and hands
    bytes buffered behind the upgrading request over at once, without waiting for more input. -/
theorem C02_worker_bookkeeping :
    (∀ sw, Extracted.keepUnread sw true = true) ∧
    (Extracted.switchedNow false true = true ∧ Extracted.switchedNow true true = false ∧
      Extracted.switchedNow false false = false) ∧
    (∀ e, Extracted.handOverAtOnce true e = !e) :=
  ⟨keepUnread_upgraded, switchedNow_spec, handOverAtOnce_spec⟩

/-- … hence two segmentations of the same stream cannot be told apart by such a handler -/
theorem C02_upgraded_records_segmentation (tail₁ tail₂ : Bytes) (rest₁ rest₂ : List Bytes)
    (h : tail₁ ++ rest₁.flatten = tail₂ ++ rest₂.flatten) :
    (ListenWorker.upgradedPhase linePolicy tail₁ rest₁).1.flatten =
      (ListenWorker.upgradedPhase linePolicy tail₂ rest₂).1.flatten := by
  rw [(C02_upgraded_records tail₁ rest₁).1, (C02_upgraded_records tail₂ rest₂).1, h]

/-- non-vacuity: "bra" buffered behind the request, then "vo\nsecond li", "ne\nthi", "rd\nunfinished" -/
example :
    (ListenWorker.upgradedPhase linePolicy [98, 114, 97] [[118, 111, 10, 115], [110, 10, 116], [114, 10, 117]]).1
      = [[98, 114, 97, 118, 111, 10], [115, 110, 10], [116, 114, 10]] ∧
    (ListenWorker.upgradedPhase linePolicy [98, 114, 97] [[118, 111, 10, 115], [110, 10, 116], [114, 10, 117]]).2
      = [117] := by
  decide

/-- **C02 one byte at a time** is an instance: every byte its own chunk. -/
theorem C02_bytewise (c : Consts) (svc : Service) (dec : Bytes → Frame) (bs : Bytes) (hb : bs ≠ []) :
    (feed c svc dec 8192 (bs.map fun b => [b])).out = (handle c svc dec [bs]).groups.flatten := by
  have hne : NoEmpty [bs] := by intro x hx; simp at hx; subst hx; exact hb
  have he : [bs].flatten = (bs.map fun b => [b]).flatten := by
    have : ∀ l : Bytes, (l.map fun b => [b]).flatten = l := by
      intro l; induction l with
      | nil => rfl
      | cons x xs ih => simp [ih]
    rw [this]; simp
  exact (C02_feed_eq_whole c svc dec 8192 (by decide) _ [bs] hne he).1

/-- non-vacuity: a cut inside a message and a cut on the NUL, against the whole -/
example :
    let c : Consts := { serviceDesc := "" }
    let svc : Service := { vendor := "", product := "", version := "", url := "", ifaces := [] }
    let dec : Bytes → Frame := fun m => if m = [1, 2] then .req { method := "org.varlink.service.GetInfo" } else .bad
    (feed c svc dec 4 [[1], [2], [0], [1, 2, 0, 1]]).out = (handle c svc dec [[1, 2, 0, 1, 2, 0, 1]]).groups.flatten ∧
    (feed c svc dec 4 [[1], [2], [0], [1, 2, 0, 1]]).tail = [1] ∧
    (feed c svc dec 4 [[1], [2], [0], [1, 2, 0, 1]]).out.length = 2 := by
  decide

end VV
