/-
C15 — the listen loop stops when and only when it should, and drains cleanly.

* the accept loop (`Model.Listen`) for every configuration and every sequence of
  accept outcomes (connections, timeouts, flag and busy values read);
* the drain on return (`ThreadPool::drop` inside `Model.Pool`) for every
  interleaving.
Wall-clock time, `select` and the kernel's accept queue are the OS's: a
`timeout` outcome stands for `wait_time` ms without a connection (observed with
tolerances by the `listen` suite).
-/
import VarlinkVerif.Model.Listen
import VarlinkVerif.Props.C14
import VarlinkVerif.Lemmas.PoolDrain

namespace VV

theorem countdownDone_spec (a b : Nat) : Extracted.countdownDone a b = true ↔ a ≤ b := by
  simp [Extracted.countdownDone]

theorem idleNow_spec (b : Nat) : Extracted.idleNow b = true ↔ b = 0 := by
  simp [Extracted.idleNow]

/-- ghost invariant of the countdown -/
structure ListenInv (c : ListenCfg) (s : ListenSt) : Prop where
  countdown : s.result = .running → s.toWait + s.sinceReset = fullWait c ∨ (c.hasStop = true ∧ c.idle = 0)
  quiet_ge : s.sinceReset ≤ s.quietMs
  timeout_ok : s.result = .errTimeout → fullWait c ≤ s.quietMs ∧ s.lastBusy = some 0 ∧ 0 < c.idle
  stop_ok : s.result = .okStopped → s.sawStop = true ∧ c.hasStop = true

theorem listen_init_inv (c : ListenCfg) (stop0 : Bool) : ListenInv c (Listen.init c stop0) := by
  unfold Listen.init
  split
  · rename_i h
    simp at h
    exact ⟨by simp, by simp, by simp, by simp [h.1]⟩
  · exact ⟨by simp, by simp, by simp, by simp⟩

theorem listen_step_inv (c : ListenCfg) (s : ListenSt) (o : AcceptOutcome) (h : ListenInv c s) :
    ListenInv c (Listen.step c s o) := by
  unfold Listen.step
  by_cases hr : s.result = .running
  case neg => simp [hr]; exact h
  simp only [hr, bne_self_eq_false, Bool.false_eq_true, if_false]
  obtain ⟨hcd, hq, hto, hso⟩ := h
  cases o with
  | conn stopAtTop =>
    simp only
    split
    · rename_i hs
      simp at hs
      exact ⟨by simp, by simp, by simp, by simp [hs.1]⟩
    · exact ⟨by simp [hr], by simp, by simp [hr], by simp [hr]⟩
  | timeout stop busy =>
    simp only
    by_cases hw : waitTime c = 0
    · simp [hw]; exact ⟨hcd, hq, hto, hso⟩
    simp only [hw, if_false]
    split
    · rename_i hs
      simp at hs
      exact ⟨by simp, by simp; omega, by simp, by simp [hs.1]⟩
    · split
      · rename_i hz
        simp at hz
        exact ⟨by simp [hr]; right; exact hz, by simp; omega, by simp [hr], by simp [hr]⟩
      · rename_i hnz
        have hcd' := hcd hr
        have hnot0 : ¬ (c.hasStop = true ∧ c.idle = 0) := by simpa using hnz
        have hcd2 : s.toWait + s.sinceReset = fullWait c := by
          rcases hcd' with h | h
          · exact h
          · exact absurd h hnot0
        split
        · rename_i hdone
          have hle := (countdownDone_spec _ _).mp hdone
          split
          · rename_i hidle
            have hb := (idleNow_spec _).mp hidle
            refine ⟨by simp, by simp; omega, ?_, by simp⟩
            intro _
            refine ⟨by simp; omega, by simp [hb], ?_⟩
            -- idle > 0: otherwise waitTime = 0 (no stop) or the `continue` branch (stop)
            by_cases hi : c.idle = 0
            · exfalso
              by_cases hs : c.hasStop = true
              · exact hnot0 ⟨hs, hi⟩
              · apply hw
                simp [waitTime, hs, fullWait, hi]
            · omega
          · refine ⟨by simp [hr], by simp, by simp [hr], by simp [hr]⟩
        · rename_i hnd
          have hgt : waitTime c < s.toWait := by
            have : ¬ (s.toWait ≤ waitTime c) := fun hh => hnd ((countdownDone_spec _ _).mpr hh)
            omega
          refine ⟨?_, by simp; omega, by simp [hr], by simp [hr]⟩
          intro _
          left
          simp
          omega

theorem listen_run_inv (c : ListenCfg) (stop0 : Bool) (os : List AcceptOutcome) :
    ListenInv c (Listen.run c stop0 os) := by
  unfold Listen.run
  have : ∀ s, ListenInv c s → ListenInv c (os.foldl (Listen.step c) s) := by
    induction os with
    | nil => intro s h; exact h
    | cons o os ih => intro s h; exact ih _ (listen_step_inv c s o h)
  exact this _ (listen_init_inv c stop0)

/-- **C15 timeout is not early and not while busy**: for every configuration and
    every history of accept outcomes, if `listen` returns the timeout error then
    an idle timeout is configured, at least `idle_timeout` seconds' worth of
    consecutive `accept` timeouts have passed since the last accepted connection,
    and the busy counter read at that moment was 0. -/
theorem C15_timeout_not_early (c : ListenCfg) (stop0 : Bool) (os : List AcceptOutcome)
    (h : (Listen.run c stop0 os).result = .errTimeout) :
    0 < c.idle ∧ c.idle * Extracted.msPerSec ≤ (Listen.run c stop0 os).quietMs ∧
    (Listen.run c stop0 os).lastBusy = some 0 := by
  have := (listen_run_inv c stop0 os).timeout_ok h
  exact ⟨this.2.2, this.1, this.2.1⟩

/-- the busy counter is exact (C14's invariant): reading 0 means that no accepted
    connection is queued or in the hands of a worker -/
theorem C15_idle_means_nothing_in_service (initial max : Nat) (hi : 0 < initial) (steps : List PStep)
    (hb : (Pool.run (Pool.init initial max) steps).busy = 0) :
    Pool.queuedJobs (Pool.run (Pool.init initial max) steps) = 0 ∧
    Pool.serving (Pool.run (Pool.init initial max) steps) = 0 := by
  have h := (run_inv steps _ (init_inv initial max hi)).busy_eq
  rw [hb] at h
  have hle : runningCount (Pool.run (Pool.init initial max) steps).workers ≤
      heldCount (Pool.run (Pool.init initial max) steps).workers := by
    simp only [runningCount, heldCount]
    generalize (Pool.run (Pool.init initial max) steps).workers = ws
    induction ws with
    | nil => simp
    | cons w ws ih =>
      cases w <;> simp [List.filter_cons, WPc.isRunning, WPc.hasJob] <;> omega
  simp only [Pool.serving]
  omega

/-- **C15 stop**: with a stop flag configured, the first time the flag is read as
    set — at the next `accept` timeout (at most one 100 ms slice away) or right
    after the next accepted connection — `listen` returns `Ok`. -/
theorem C15_stop (c : ListenCfg) (s : ListenSt) (hs : c.hasStop = true) (hr : s.result = .running) :
    (∀ busy, (Listen.step c s (.timeout true busy)).result = .okStopped) ∧
    (Listen.step c s (.conn true)).result = .okStopped ∧
    waitTime c = Extracted.stopSlice := by
  refine ⟨?_, ?_, by simp [waitTime, hs]⟩
  · intro busy
    have hw : waitTime c ≠ 0 := by simp [waitTime, hs, Extracted.stopSlice]
    simp [Listen.step, hr, hs, hw]
  · simp [Listen.step, hr, hs]

/-- **C15 stop only when asked**: `listen` returns `Ok` only if a stop flag is
    configured and some read of it returned `true`. -/
theorem C15_ok_only_if_stopped (c : ListenCfg) (stop0 : Bool) (os : List AcceptOutcome)
    (h : (Listen.run c stop0 os).result = .okStopped) :
    c.hasStop = true ∧ (Listen.run c stop0 os).sawStop = true := by
  have := (listen_run_inv c stop0 os).stop_ok h
  exact ⟨this.2, this.1⟩

/-- without an idle timeout and without a stop flag the loop never returns by itself -/
theorem C15_runs_forever_by_default (stop0 : Bool) (os : List AcceptOutcome) :
    (Listen.run { idle := 0, hasStop := false } stop0 os).result = .running := by
  have := listen_run_inv { idle := 0, hasStop := false } stop0 os
  cases hres : (Listen.run { idle := 0, hasStop := false } stop0 os).result with
  | running => rfl
  | okStopped => have := (this.stop_ok hres).2; simp at this
  | errTimeout => have := (this.timeout_ok hres).2.2; simp at this

/-- **C15 drain**: `listen` returns only after `ThreadPool::drop` has joined every
    worker.  In every interleaving, once all workers have terminated, every
    connection that was ever accepted (every job enqueued, also those still
    queued when the drop began) has been served to completion: Terminate
    messages sit behind all jobs in the FIFO channel and a worker terminates only
    when no job is left. -/
theorem C15_drain (initial max : Nat) (steps : List PStep)
    (hall : ∀ w ∈ (Pool.run (Pool.init initial max) steps).workers, w = .terminated)
    (hne : (Pool.run (Pool.init initial max) steps).workers ≠ []) :
    ∀ j, j < (Pool.run (Pool.init initial max) steps).nextJob →
      j ∈ (Pool.run (Pool.init initial max) steps).finished := by
  intro j hj
  have inv := drain_run steps _ (drain_init initial max)
  generalize Pool.run (Pool.init initial max) steps = s at *
  have hterm : WPc.terminated ∈ s.workers := by
    cases hw : s.workers with
    | nil => exact absurd hw hne
    | cons w ws =>
      have := hall w (by simp [hw])
      simp [this]
  have hq := inv.term_after_jobs hterm
  rcases inv.accounted j hj with h | h | h
  · exact absurd h (not_mem_job_of_queued_zero _ _ hq)
  · rcases h with h | h
    · have := hall _ h; simp at this
    · have := hall _ h; simp at this
  · exact h

/-- a worker never terminates while a job is queued: nothing accepted is dropped -/
theorem C15_no_termination_before_jobs (initial max : Nat) (steps : List PStep)
    (h : WPc.terminated ∈ (Pool.run (Pool.init initial max) steps).workers) :
    Pool.queuedJobs (Pool.run (Pool.init initial max) steps) = 0 :=
  (drain_run steps _ (drain_init initial max)).term_after_jobs h

/-- **C15 unlink**: exactly the filesystem socket created by this listener is
    removed when it is dropped (after the pool has been drained: `pool` is
    declared after `listener` in `listen`, so it is dropped first). -/
theorem C15_unlink (k : ListenerKind) : unlinksOnDrop k = true ↔ k = .unixPath true := by
  cases k with
  | unixPath c => cases c <;> simp [unlinksOnDrop]
  | unixAbstract => simp [unlinksOnDrop]
  | tcp => simp [unlinksOnDrop]

set_option maxRecDepth 8000 in
/-- non-vacuity of the drain theorem: two jobs, the second still queued when the
    pool is dropped; after the schedule all workers are terminated -/
example :
    let s := Pool.run (Pool.init 1 1) [.enq, .grow, .deq, .start 0, .enq, .grow, .drop, .finish 0, .dec 0,
      .deq, .start 1, .finish 1, .dec 1, .deq]
    (∀ w ∈ s.workers, w = .terminated) ∧ s.workers ≠ [] ∧ s.nextJob = 2 ∧ s.finished = [0, 1] := by
  decide

set_option maxRecDepth 8000 in
/-- non-vacuity: idle 1 s with a stop flag: ten 100 ms slices, busy 0 → timeout;
    nine are not enough; a connection in between restarts the countdown -/
example :
    let c : ListenCfg := { idle := 1, hasStop := true }
    (Listen.run c false (List.replicate 10 (.timeout false 0))).result = .errTimeout ∧
    (Listen.run c false (List.replicate 9 (.timeout false 0))).result = .running ∧
    (Listen.run c false (List.replicate 9 (.timeout false 0) ++ [.conn false] ++
        List.replicate 9 (.timeout false 0))).result = .running ∧
    (Listen.run c false (List.replicate 10 (.timeout false 2) ++ List.replicate 9 (.timeout false 0))).result = .running := by
  decide

end VV
