/-
C04 — a oneway call never produces a reply (server half).

Model: Model.Wire (`replyStruct`, `replyParameters`, `runActs`, `callOne`,
`serve`).  Quantifiers: every service, every request, every script.
-/
import VarlinkVerif.Lemmas.Wire
import VarlinkVerif.Lemmas.WireExtracted

namespace VV

theorem replyStruct_oneway (req : Request) (st : CallSt) (r : Reply) (h : isOneway req = true) :
    ∀ st', replyStruct req st r = some st' → st'.out = st.out := by
  intro st' e
  unfold replyStruct at e
  split at e
  · simp at e
  · simp at e; rw [← e]

theorem runActs_oneway (req : Request) (h : isOneway req = true) :
    ∀ (acts : List Act) (st : CallSt), (runActs req acts st).1.out = st.out := by
  intro acts
  induction acts with
  | nil => intro st; simp [runActs]
  | cons a as ih =>
    intro st
    cases a with
    | setContinues b => simp [runActs, ih]
    | toUpgraded => simp [runActs, ih]
    | fail => simp [runActs]
    | reply r =>
      simp only [runActs]
      cases e : replyStruct req st r with
      | none => simp
      | some st' => simp [ih, replyStruct_oneway req st r h st' e]
    | replyTry r =>
      simp only [runActs]
      cases e : replyStruct req st r with
      | none => simp [ih]
      | some st' => simp [ih, replyStruct_oneway req st r h st' e]

theorem replyParameters_oneway (req : Request) (h : isOneway req = true) (st : CallSt) (p : Json) :
    (replyParameters req st p).out = st.out := by
  simp [replyParameters, h]

theorem builtinCall_oneway (c : Consts) (svc : Service) (req : Request) (h : isOneway req = true)
    (st : CallSt) : (builtinCall c svc req st).1.out = st.out := by
  unfold builtinCall
  repeat' split
  all_goals first
    | exact replyParameters_oneway req h st _
    | exact runActs_oneway req h _ st
    | rfl

theorem routeCall_oneway (c : Consts) (svc : Service) (iface : String) (req : Request)
    (h : isOneway req = true) (st : CallSt) : (routeCall c svc iface req st).1.out = st.out := by
  unfold routeCall
  repeat' split
  all_goals first
    | exact builtinCall_oneway c svc req h st
    | exact runActs_oneway req h _ st

/-- **C04 (server)**: whatever the service, the interface it reaches (built-in,
    registered with an arbitrary script, unknown, no dot) and whatever the
    script does, a request with `oneway: true` produces no reply. -/
theorem C04_no_reply_for_oneway (c : Consts) (svc : Service) (req : Request)
    (h : isOneway req = true) : (callOne c svc req).out = [] := by
  unfold callOne
  cases hi : ifaceOf req.method with
  | none =>
    simp only
    have := runActs_oneway req h [.reply (errInterfaceNotFound req.method)] {}
    simpa using this
  | some iface =>
    simp only
    have := routeCall_oneway c svc iface req h {}
    simpa using this

/-- **C04 alignment**: in the reply stream of a whole connection the slot of
    every oneway request is empty, so the stream is aligned with the
    non-oneway requests. -/
theorem C04_alignment (c : Consts) (svc : Service) :
    ∀ (fs : List Frame) (i : Nat) (r : Request),
      fs[i]? = some (.req r) → isOneway r = true →
      ∀ g, (serve c svc fs).groups[i]? = some g → g = [] := by
  intro fs
  induction fs with
  | nil => intro i r h; simp at h
  | cons f fs ih =>
    intro i r h ho g hg
    cases f with
    | bad => simp [serve] at hg
    | req r0 =>
      simp only [serve] at hg
      cases i with
      | zero =>
        simp at h
        subst h
        have := C04_no_reply_for_oneway c svc r0 ho
        split at hg
        · simp at hg; rw [← hg, this]
        · split at hg
          · simp at hg; rw [← hg, this]
          · simp at hg; rw [← hg, this]
      | succ j =>
        simp at h
        split at hg
        · simp at hg
        · split at hg
          · simp at hg
          · simp at hg
            exact ih j r h ho g hg

/-- non-vacuity: a oneway request to the built-in interface is a case the
    theorem speaks about (and the model computes an empty group for it). -/
example :
    let req : Request := { method := "org.varlink.service.GetInfo", oneway := some true }
    isOneway req = true ∧
      (callOne { serviceDesc := "" } { vendor := "", product := "", version := "", url := "", ifaces := [] } req).out = [] := by
  decide

/-- Tie by extraction (DESIGN §4.2): the reply gate all theorems of this file are about is the one
    `tools/extract.d/wire.py` reads out of `reply_struct`, `reply_parameters` and `is_oneway` in
    /repo/varlink/src/lib.rs on every run (`Model/ExtractedWire.lean` is regenerated before the
    build).  For every request, call state, reply and parameter value. -/
theorem C04_gate_is_source (req : Request) (st : CallSt) (r : Reply) (p : Json) :
    replyStruct req st r = replyStructE req st r ∧
    replyParameters req st p = replyParametersE req st p ∧
    isOneway req = ExtractedWire.isOnewayE req.more req.oneway req.upgrade :=
  ⟨replyStruct_is_source req st r, replyParameters_is_source req st p, isOneway_is_source req⟩

/-- over the extracted gate alone: a oneway call is never in the `write` state, whatever the other
    flags — the statement of C04 about the source's own expression -/
theorem C04_source_gate_never_writes_oneway (continues wantsMore : Bool) :
    ExtractedWire.gate continues wantsMore true ≠ .write ∧
    ExtractedWire.paramsSilent continues wantsMore true = true := by
  cases continues <;> cases wantsMore <;> decide

end VV
