/-
Pred.Wire — the decidable predicates `P_C01 … P_C06` that are evaluated on the
*implementation's* observation of every generated case (DESIGN §5.2): the
search for a concrete failing input.  They restate the properties on
observables only (request list, reply list, status, returned bytes) and do not
call the model's `serve`/`handle`; what they share with the model is the
vocabulary (`Request`, `Reply`, `Frame`, `Status`, `frames`, `ifaceOf`).

A verdict is `none` (holds / not applicable) or `some reason`.
-/
import VarlinkVerif.Model.Wire

namespace VV

structure WireObs where
  panicked : Bool := false
  status : Status := .eof
  out : List Reply := []
  rawOut : Bool := false          -- some written bytes were not a reply object
  tail : Bytes := []
  rest : Bytes := []
  seen : Bytes := []
  calls : List (String × String × Request) := []
  /-- per recorded call: what `wants_more()` / `is_oneway()` told the implementation -/
  callApi : List (Bool × Bool) := []
  refStatus : Status := .eof
  refOut : List Reply := []
  refTail : Bytes := []
  refRest : Bytes := []

/-- what the predicate knows about the configuration -/
structure WireCfg where
  vendor : String
  product : String
  version : String
  url : String
  /-- (kind, name, desc) in registration order; kind = "script" | "gen" -/
  ifaces : List (String × String × String)

abbrev Verdict := Option String

def firstSome : List Verdict → Verdict
  | [] => none
  | some r :: _ => some r
  | none :: rest => firstSome rest

/-! #### helpers on observables -/

def isFinal (r : Reply) : Bool := r.continues != some true

/-- cut a flat reply list into groups ending at each final reply; the second
    component is a trailing run of `continues` replies without a final -/
def groupReplies : List Reply → List Reply → List (List Reply) × List Reply
  | [], cur => ([], cur.reverse)
  | r :: rs, cur =>
    if isFinal r then
      let (gs, t) := groupReplies rs []
      ((r :: cur).reverse :: gs, t)
    else groupReplies rs (r :: cur)

def tokenOfJson : Option Json → Option String
  | some j => match j.get? "token" with
    | some (.str s) => some s
    | _ => none
  | none => none

partial def jsonStrings : Json → List String
  | .str s => [s]
  | .arr l => l.flatMap jsonStrings
  | .obj l => l.flatMap fun kv => jsonStrings kv.2
  | _ => []

def isInfix (needle hay : List Char) : Bool :=
  match hay with
  | [] => needle.isEmpty
  | _ :: t => needle.isPrefixOf hay || isInfix needle t

def mentions (tok : String) (r : Reply) : Bool :=
  match r.parameters with
  | some p => (jsonStrings p).any fun s => isInfix tok.toList s.toList
  | none => false

/-- independent split at the last dot -/
def ifacePart (m : String) : Option String :=
  match (m.splitOn ".").reverse with
  | [] => none
  | [_] => none
  | _ :: revInit => some (".".intercalate revInit.reverse)

def lastRegistered (cfg : WireCfg) (name : String) : Option (String × String × String) :=
  cfg.ifaces.reverse.find? fun i => i.2.1 == name

/-- syntactic properness of a scripted call (C01's `Proper`): one final reply,
    or `cont true; reply*; cont false; reply` -/
def scriptProper (acts : List Json) : Bool :=
  let op (a : Json) : String := match a.get? "op" with | some (.str s) => s | _ => ""
  let ops := acts.map op
  match ops with
  | [x] => x == "reply" || x == "err"
  | "cont" :: rest =>
    match rest.reverse with
    | fin :: "cont" :: mid => (fin == "reply" || fin == "err") && mid.all (· == "reply") &&
        (match acts.head? with | some a => a.get? "v" == some (.bool true) | none => false) &&
        (match acts.reverse with | _ :: a :: _ => a.get? "v" == some (.bool false) | _ => false)
    | _ => false
  | _ => false

/-- is the request one whose handling is entirely library code or a proper
    script?  (`none` = scope unknown → case not judged by P_C01) -/
def inScope (cfg : WireCfg) (r : Request) : Bool :=
  match ifacePart r.method with
  | none => true
  | some i =>
    if i == svcName then true
    else match lastRegistered cfg i with
      | none => true
      | some (kind, _, _) =>
        if kind == "gen" then true
        else if (r.method.splitOn ".").getLast?.getD "" |>.startsWith "Nx" then true
        else match r.parameters with
          | some p => match p.get? "script" with
            | some (.arr l) => scriptProper l
            | _ => false
          | none => false

/-- wrong member types inside an otherwise well-formed request to the built-in interface:
    `GetInterfaceDescription` whose `parameters` are present but carry no string `interface`
    (object form) and are not a one-element array of a string -/
def illTypedBuiltin (r : Request) : Bool :=
  r.method == "org.varlink.service.GetInterfaceDescription" &&
    match r.parameters with
    | none => false
    | some (.obj l) => (match Json.lookup "interface" l with | some (.str _) => false | _ => true)
    | some (.arr [.str _]) => false
    | some _ => true

/-- requests answered by the library itself (built-in interface, unknown interface, no dot) -/
def librarySide (cfg : WireCfg) (r : Request) : Bool :=
  match ifacePart r.method with
  | none => true
  | some i => i == svcName || (lastRegistered cfg i).isNone

/-! #### P_C01 -/

/-- walk requests and groups together -/
def matchGroups (closed : Bool) : List Frame → List (List Reply) → Verdict
  | [], [] => none
  | [], _ :: _ => some "reply-without-request"
  | .bad :: _, gs => if gs.isEmpty then (if closed then none else some "bad-frame-but-open") else some "reply-after-bad-frame"
  | .req r :: fs, gs =>
    if isOneway r then matchGroups closed fs gs
    else match gs with
      | [] => if closed then none else some "unanswered-request-on-open-connection"
      | g :: gs' =>
        let tokOK := match tokenOfJson r.parameters with
          | some t => g.all fun rep => match tokenOfJson rep.parameters with
              | some t' => t == t'
              | none => true
          | none => true
        let contOK := g.all fun rep => isFinal rep || wantsMore r
        if !tokOK then some "reply-attributed-to-wrong-request"
        else if !contOK then some "continues-without-more"
        else matchGroups closed fs gs'

def P_C01 (cfg : WireCfg) (fs : List Frame) (o : WireObs) : Verdict :=
  if o.panicked then some "panic" else
  if o.rawOut then some "unparsable-output" else
  -- a stream of well-formed requests that the library answers itself never ends in an error: every one of them
  -- is answered and the connection stays open until the peer is done
  let allLibrary := fs.all fun f => match f with
    | .req r => librarySide cfg r && !illTypedBuiltin r
    | .bad => false
  if allLibrary && o.status != .eof then
    some "connection-ended-with-an-error-although-every-message-was-well-formed" else
  let inScopeAll := fs.all fun f => match f with | .req r => inScope cfg r | .bad => true
  if !inScopeAll then none else
  let (gs, partialTail) := groupReplies o.out []
  let closed := o.status != .eof
  if !closed && !partialTail.isEmpty then some "dangling-continues-on-open-connection"
  else matchGroups closed fs gs

/-! #### P_C04 -/

def P_C04 (cfg : WireCfg) (fs : List Frame) (o : WireObs) : Verdict :=
  if o.panicked then some "panic" else
  let onewayToks := fs.filterMap fun f => match f with
    | .req r => if isOneway r then tokenOfJson r.parameters else none
    | .bad => none
  let bad := o.out.any fun rep => onewayToks.any fun t => mentions t rep
  if bad then some "reply-to-oneway-request" else
  -- requests answered by the library itself (built-in interface, unknown interface, no dot) get at most one
  -- reply each whatever their flags: when every non-oneway request of the case is of that kind, any further
  -- reply can only belong to a oneway request (whatever its method implementation does)
  let nonOnewayReqs := fs.filterMap fun f => match f with
    | .req r => if isOneway r then none else some r
    | .bad => none
  if !o.rawOut && nonOnewayReqs.all (librarySide cfg) && o.out.length > nonOnewayReqs.length then
    some "reply-to-oneway-request (more replies than the non-oneway requests can have)" else
  -- counting needs every method implementation of the case to be proper
  let inScopeAll := fs.all fun f => match f with | .req r => inScope cfg r | .bad => true
  if !inScopeAll then none else
  let nonOneway := (fs.filter fun f => match f with | .req r => !isOneway r | .bad => false).length
  let finals := (o.out.filter isFinal).length
  if finals > nonOneway then some "more-final-replies-than-non-oneway-requests" else none

/-! #### P_C05 -/

/-- the method implementation of this request sets `continues` and then replies (the propagating `reply` op) -/
def scriptStreamsFirst (cfg : WireCfg) (r : Request) : Bool :=
  match ifacePart r.method with
  | none => false
  | some i =>
    i != svcName &&
    (match lastRegistered cfg i with
     | some (kind, _, _) => kind == "script" && !((r.method.splitOn ".").getLast?.getD "").startsWith "Nx"
     | none => false) &&
    match r.parameters with
    | some p => (match p.get? "script" with
      | some (.arr (a :: b :: _)) =>
        a.get? "op" == some (.str "cont") && a.get? "v" == some (.bool true) &&
          (b.get? "op" == some (.str "reply") || b.get? "op" == some (.str "err"))
      | _ => false)
    | none => false

/-- "an attempt by a method implementation to do otherwise fails with an error": behind requests the library
    answers itself, a call without `more` whose implementation sets `continues` and replies gets an error back
    from that reply (whatever the other flags of the request) — the scripted implementation propagates it, so the
    connection ends with an error -/
def checkMismatchFails (cfg : WireCfg) (fs : List Frame) (o : WireObs) : Verdict :=
  let pre := fs.takeWhile fun f => match f with
    | .req r => librarySide cfg r && !illTypedBuiltin r
    | .bad => false
  match fs.drop pre.length with
  | .req r :: _ =>
    if !wantsMore r && scriptStreamsFirst cfg r then
      (if o.status == .err then none else some "continues-without-more-did-not-fail-in-the-method-implementation")
    else none
  | _ => none

def P_C05 (cfg : WireCfg) (fs : List Frame) (o : WireObs) : Verdict :=
  if o.panicked then some "panic" else
  match checkMismatchFails cfg fs o with
  | some r => some r
  | none =>
  -- tokens are unique per request: a reply with continues:true must not carry
  -- the token of a request that did not ask for `more`
  let plainToks := fs.filterMap fun f => match f with
    | .req r => if wantsMore r then none else tokenOfJson r.parameters
    | .bad => none
  let bad := o.out.any fun rep =>
    rep.continues == some true &&
      match tokenOfJson rep.parameters with
      | some t => plainToks.contains t
      | none => false
  if bad then some "continues-reply-for-request-without-more" else
  if (fs.all fun f => match f with | .req r => !wantsMore r | .bad => true) &&
      o.out.any (fun rep => rep.continues == some true) then some "continues-reply-but-no-more-request"
  else none

/-! #### P_C02 -/

def afterLastNul (bs : Bytes) : Bytes := (frames bs).2

def isSuffixAfterNul (suffix total : Bytes) : Bool :=
  suffix.length ≤ total.length &&
    total.drop (total.length - suffix.length) == suffix &&
    (suffix.length == total.length ||
      total[total.length - suffix.length - 1]? == some 0)

/-- the method implementation of this request switches the connection to upgraded mode first thing -/
def scriptUpgradesFirst (cfg : WireCfg) (r : Request) : Bool :=
  match ifacePart r.method with
  | none => false
  | some i =>
    i != svcName &&
    (match lastRegistered cfg i with
     | some (kind, _, _) => kind == "script" && !((r.method.splitOn ".").getLast?.getD "").startsWith "Nx"
     | none => false) &&
    match r.parameters with
    | some p => (match p.get? "script" with
      | some (.arr (a :: _)) => a.get? "op" == some (.str "upgrade")
      | _ => false)
    | none => false

/-- whether a connection is upgraded is the implementation's decision (`to_upgraded()`), whatever the flags of the
    request and whether or not a reply is written: behind a prefix of requests the library answers itself, a call
    whose implementation upgrades first thing leaves the connection upgraded -/
def checkUpgradeHonoured (cfg : WireCfg) (fs : List Frame) (o : WireObs) : Verdict :=
  let pre := fs.takeWhile fun f => match f with
    | .req r => librarySide cfg r && !illTypedBuiltin r
    | .bad => false
  match fs.drop pre.length with
  | .req r :: _ =>
    if scriptUpgradesFirst cfg r then
      (match o.status with
       | .upgraded _ => none
       | _ => some "implementation-upgraded-the-connection-but-it-was-not-handed-over")
    else none
  | _ => none

def P_C02 (cfg : WireCfg) (fs : List Frame) (feedMode : Bool) (total : Bytes) (o : WireObs) : Verdict :=
  if o.panicked then some "panic" else
  match checkUpgradeHonoured cfg fs o with
  | some r => some r
  | none =>
  if o.out != o.refOut then some "replies-depend-on-segmentation" else
  if o.status != o.refStatus then some "status-depends-on-segmentation" else
  match o.status with
  | .eof =>
    if o.tail ++ o.rest != afterLastNul total then some "tail-is-not-the-bytes-after-the-last-complete-message"
    else none
  | .err => none
  | .upgraded _ =>
    -- `feed` mode: `rest` = bytes left unread in a per-step slice, which the documented loop loses;
    -- `whole` mode: `rest` = what is still in the caller's reader (not lost, the caller owns it)
    if feedMode && !o.rest.isEmpty then
      if total.length ≤ 8192 then some "bytes-after-an-upgrade-left-in-the-callers-reader-are-lost"
      else some "bytes-beyond-the-internal-buffer-left-in-the-callers-reader-after-an-upgrade-are-lost"
    else
    let handed := o.seen ++ o.tail ++ o.rest
    if handed != o.refTail ++ o.refRest then some "upgraded-bytes-depend-on-segmentation"
    else if !isSuffixAfterNul handed total then some "upgraded-bytes-are-not-the-stream-after-the-request"
    else none

/-! #### P_C03 (per request/group pair, when groups can be attributed) -/

def errorIs (g : List Reply) (name : String) (member value : String) : Bool :=
  match g with
  | [r] => r.error == some name && r.continues == none &&
      (match r.parameters with
       | some p => p.get? member == some (.str value)
       | none => false)
  | _ => false

def sortedDedup (l : List String) : List String :=
  (l.mergeSort (fun a b => a ≤ b)).eraseDups

def checkRouting (cfg : WireCfg) (r : Request) (g : List Reply) : Verdict :=
  match ifacePart r.method with
  | none =>
    if errorIs g sInterfaceNotFound "interface" r.method then none else some "no-dot-not-answered-with-InterfaceNotFound"
  | some i =>
    if i == svcName then
      if r.method == "org.varlink.service.GetInfo" then
        match g with
        | [rep] =>
          match rep.parameters, rep.error with
          | some p, none =>
            let names := sortedDedup (cfg.ifaces.map (·.2.1))
            let expect : Json := .obj [("interfaces", .arr ((svcName :: names).map .str)),
              ("product", .str cfg.product), ("url", .str cfg.url),
              ("vendor", .str cfg.vendor), ("version", .str cfg.version)]
            -- the observation arrives with the tail of the list sorted
            if p == expect then none else some "GetInfo-does-not-match-configuration"
          | _, _ => some "GetInfo-not-answered-with-parameters"
        | _ => some "GetInfo-not-answered-once"
      else if r.method == "org.varlink.service.GetInterfaceDescription" then
        match r.parameters with
        | none => if errorIs g sInvalidParameter "parameter" "parameters" then none
                  else some "GetInterfaceDescription-without-parameters-not-InvalidParameter"
        | some p =>
          match p with
          | .obj l =>
            match Json.lookup "interface" l with
            | some (.str n) =>
              if n == svcName then none
              else match lastRegistered cfg n with
                | some (_, _, d) =>
                  (match g with
                   | [rep] => if rep.error == none && rep.parameters == some (.obj [("description", .str d)]) then none
                              else some "description-not-verbatim"
                   | _ => some "description-not-answered-once")
                | none => if errorIs g sInvalidParameter "parameter" "interface" then none
                          else some "unregistered-interface-description-not-InvalidParameter"
            | _ => none
          | _ => none
      else
        if errorIs g sMethodNotFound "method" r.method then none else some "service-method-not-MethodNotFound"
    else match lastRegistered cfg i with
      | none =>
        if errorIs g sInterfaceNotFound "interface" i then none else some "unknown-interface-not-InterfaceNotFound"
      | some (kind, _, _) =>
        if kind == "script" && ((r.method.splitOn ".").getLast?.getD "").startsWith "Nx" then
          if errorIs g sMethodNotFound "method" r.method then none else some "unknown-method-not-MethodNotFound"
        else if kind == "gen" &&
            !(["Echo", "Stream", "Fail", "Opt", "NoArgs", "Ping"].contains ((r.method.splitOn ".").getLast?.getD "")) then
          if errorIs g sMethodNotFound "method" r.method then none else some "unknown-generated-method-not-MethodNotFound"
        else none

def pairGroups : List Frame → List (List Reply) → List (Request × List Reply)
  | .req r :: fs, gs =>
    if isOneway r then pairGroups fs gs
    else match gs with
      | g :: gs' => (r, g) :: pairGroups fs gs'
      | [] => []
  | _, _ => []

/-- calls recorded by the scripted interfaces: each must have reached the last
    registration under the name its method splits to, with the request unchanged -/
def checkCalls (cfg : WireCfg) (fs : List Frame) (o : WireObs) : Verdict :=
  let reqs := fs.filterMap fun f => match f with | .req r => some r | .bad => none
  firstSome <| o.calls.map fun (name, desc, r) =>
    if !reqs.contains r then some "interface-saw-a-request-that-was-not-sent"
    else match ifacePart r.method with
      | none => some "interface-called-for-method-without-dot"
      | some i =>
        if i != name then some "call-reached-interface-with-a-different-name"
        else match lastRegistered cfg i with
          | some (_, _, d) => if d == desc then none else some "call-reached-a-shadowed-registration"
          | none => some "call-reached-unregistered-interface"

/-- when the implementation reports that it consumed its input to the end of the stream in varlink mode
    (no error, no upgrade), every complete request for a registered scripted interface must have reached
    it: the calls recorded are exactly those requests, in order -/
def checkAllReached (cfg : WireCfg) (fs : List Frame) (o : WireObs) : Verdict :=
  if o.status != .eof || fs.any (fun f => match f with | .bad => true | .req _ => false) then none else
  let reqs := fs.filterMap fun f => match f with | .req r => some r | .bad => none
  let expected := reqs.filter fun r => match ifacePart r.method with
    | none => false
    | some i => i != svcName && match lastRegistered cfg i with   -- the built-in interface cannot be shadowed
      | some (kind, _, _) => kind == "script"
      | none => false
  let got := o.calls.map fun c => c.2.2
  if got == expected then none else some "call-did-not-reach-its-interface"

/-- "with its flags … unchanged": the Call API must tell the implementation exactly the flags of its request -/
def checkApiFlags (o : WireObs) : Verdict :=
  firstSome <| (o.calls.zip o.callApi).map fun (c, api) =>
    if api.1 != wantsMore c.2.2 then some "interface-was-told-a-different-more-flag"
    else if api.2 != isOneway c.2.2 then some "interface-was-told-a-different-oneway-flag"
    else none

def P_C03 (cfg : WireCfg) (fs : List Frame) (o : WireObs) : Verdict :=
  if o.panicked then some "panic" else
  -- what the service writes in varlink mode is a sequence of complete reply messages
  if o.rawOut && (match o.status with | .upgraded _ => false | _ => true) then
    some "reply-bytes-are-not-a-sequence-of-complete-messages" else
  match ((checkCalls cfg fs o).orElse (fun _ => checkAllReached cfg fs o)).orElse (fun _ => checkApiFlags o) with
  | some r => some r
  | none =>
    -- reply clauses need attribution: replies are grouped (continues* + final) and paired with the requests in
    -- order, as far as every request so far is in scope (a proper method implementation); what follows the
    -- first out-of-scope request cannot be attributed and is not judged
    if o.rawOut then none else
    let inScopePrefix := fs.takeWhile fun f => match f with | .req r => inScope cfg r | .bad => false
    let (gs, _) := groupReplies o.out []
    firstSome <| (pairGroups inScopePrefix gs).map fun (r, g) => checkRouting cfg r g

/-! #### P_C06 -/

def isMalformedFrame : Frame → Bool
  | .bad => true
  | .req r => illTypedBuiltin r

/-- does `pat` occur in `b` starting at its head -/
def bytesPrefix : Bytes → Bytes → Bool
  | [], _ => true
  | _ :: _, [] => false
  | p :: ps, b :: bs => p == b && bytesPrefix ps bs

/-- the fixture's request tokens (`"token":"t…z"`, written without white space by the generators) that occur
    in a raw byte string -/
def rawTokens (b : Bytes) : List String :=
  let pat : Bytes := "\"token\":\"".toUTF8.toList
  let rec go : Nat → Bytes → List String → List String
    | 0, _, acc => acc
    | _, [], acc => acc
    | n + 1, x :: xs, acc =>
      if bytesPrefix pat (x :: xs) then
        let rest := (x :: xs).drop pat.length
        let tokB := rest.takeWhile (· != 34)
        go n xs (String.fromUTF8! ⟨tokB.toArray⟩ :: acc)
      else go n xs acc
  go b.length b []

/-- a truncated message — the bytes after the last NUL when the peer is done — is never answered, even when
    only the terminator is missing -/
def checkUnterminated (total : Bytes) (o : WireObs) : Verdict :=
  let dangling := (frames total).2
  let toks := (rawTokens dangling).filter fun t => t.startsWith "t" && t.endsWith "z"
  if o.out.any fun rep => toks.any fun t => mentions t rep then some "reply-for-an-unterminated-message"
  else none

/-- a message that is not UTF-8 is not JSON, whatever a lenient parser makes of it -/
def validUtf8 (b : Bytes) : Bool := String.validateUTF8 ⟨b.toArray⟩

def P_C06 (cfg : WireCfg) (fs : List Frame) (total : Bytes) (envelopeBad : List Bytes) (o : WireObs) : Verdict :=
  if o.panicked then some "panic" else
  match checkUnterminated total o with
  | some r => some r
  | none =>
  -- index of the first malformed frame (judged on the decoded frame AND on the raw bytes)
  let raw := (frames total).1
  let k := (fs.zip raw).findIdx fun (f, b) => isMalformedFrame f || !validUtf8 b || envelopeBad.contains b
  if k ≥ fs.length then none else
  let laterToks := (fs.drop k).filterMap fun f => match f with
    | .req r => tokenOfJson r.parameters
    | .bad => none
  if o.out.any fun rep => laterToks.any fun t => mentions t rep then some "reply-for-a-message-at-or-after-the-malformed-one"
  else if o.status == .eof then some "malformed-message-but-connection-not-closed"
  else
    let inScopeAll := fs.all fun f => match f with | .req r => inScope cfg r | .bad => true
    if !inScopeAll then none else
    let nonOnewayBefore := ((fs.take k).filter fun f => match f with | .req r => !isOneway r | .bad => false).length
    if (o.out.filter isFinal).length > nonOnewayBefore then some "more-replies-than-well-formed-requests-before-the-malformed-one"
    else none

end VV
