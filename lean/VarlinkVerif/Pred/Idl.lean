/-
Pred.Idl — decidable property predicates on the implementation's observation (suite `idl`).

`P_C11` judges the real parser's verdict with the independent recogniser `Spec.parse`
(scanner + LL(1) parser, `Model/Idl/Spec.lean`) and an independent duplicate count;
it does not call the PEG model.  `P_C12` only looks at the input text and the
reported line/column.
-/
import Driver.Sx
import VarlinkVerif.Model.Idl.Spec

namespace VV
open Sx Idl

namespace IdlObs

def str (x : Sx) : Option Str := (asStr x).map String.toList

mutual
partial def ty : Sx → Option Ty
  | .atom "bool" => some .bool
  | .atom "int" => some .int
  | .atom "float" => some .float
  | .atom "string" => some .string
  | .atom "object" => some .object
  | .list [.atom "n", n] => (str n).map .typename
  | .list (.atom "s" :: fs) => (fields fs).map .struct
  | .list (.atom "e" :: es) => (es.mapM str).map .enum
  | .list [.atom "a", t] => (ty t).map .array
  | .list [.atom "d", t] => (ty t).map .dict
  | .list [.atom "o", t] => (ty t).map .option
  | _ => none
partial def fields : List Sx → Option Fields
  | [] => some .nil
  | .list [n, t] :: r => do
    let n ← str n
    let t ← ty t
    let r ← fields r
    pure (.cons n t r)
  | _ => none
end

def structOf (x : Sx) : Option Fields :=
  match x with
  | .list (.atom "s" :: fs) => fields fs
  | _ => none

def keys (tag : String) : Sx → Option (List Str)
  | .list (.atom t :: ks) => if t = tag then ks.mapM str else none
  | _ => none

def typedefOf : Sx → Option Member
  | .list [n, d, .list (.atom "s" :: fs)] => do
    pure ⟨← str n, ← str d, .typeStruct (← fields fs)⟩
  | .list [n, d, .list (.atom "e" :: es)] => do
    pure ⟨← str n, ← str d, .typeEnum (← es.mapM str)⟩
  | _ => none

def methodOf : Sx → Option Member
  | .list [n, d, i, o] => do
    pure ⟨← str n, ← str d, .method (← structOf i) (← structOf o)⟩
  | _ => none

def errorOf : Sx → Option Member
  | .list [n, d, p] => do
    pure ⟨← str n, ← str d, .error (← structOf p)⟩
  | _ => none

structure Ok where
  name : Str
  doc : Str
  descEq : Bool
  tkeys : List Str
  mkeys : List Str
  ekeys : List Str
  types : List Member
  methods : List Member
  errors : List Member

def okOf : Sx → Option Ok
  | .list [.atom "ok", n, d, de, tk, mk, ek, .list (.atom "t" :: ts), .list (.atom "m" :: ms), .list (.atom "e" :: es)] => do
    pure { name := ← str n, doc := ← str d, descEq := (← asOptBool de) == some true,
           tkeys := ← keys "tk" tk, mkeys := ← keys "mk" mk, ekeys := ← keys "ek" ek,
           types := ← ts.mapM typedefOf, methods := ← ms.mapM methodOf, errors := ← es.mapM errorOf }
  | _ => none

end IdlObs

def isInfixOf (p : Str) : Str → Bool
  | [] => p.isEmpty
  | c :: r => p.isPrefixOf (c :: r) || isInfixOf p r

def endsWith (s p : Str) : Bool := p.reverse.isPrefixOf s.reverse

def quoted (n : Str) : Str := '`' :: n ++ ['`']

/-- deepest nesting of parentheses / brackets in the text (reported with a missed deadline) -/
def nestingDepth (t : Str) : Nat :=
  (t.foldl (fun (acc : Nat × Nat) c =>
    if c = '(' || c = '[' then (acc.1 + 1, max acc.2 (acc.1 + 1))
    else if c = ')' || c = ']' then (acc.1 - 1, acc.2)
    else acc) (0, 0)).2

/-- the parse did not come back within the per-case deadline of the harness -/
def deadlineVerdict (t : Str) : String :=
  "parse-did-not-finish-within-deadline depth=" ++ toString (nestingDepth t)

/-- C11 on one observation of `IDL::try_from`:
    accepted ⇔ the recogniser accepts and no name is defined twice; the structure mirrors the
    source (name, docs, per-kind key lists in source order, members); an `Idl` error names
    every duplicated name (back-quoted) and only duplicated names. -/
def P_C11 (t : Str) (obs : Sx) : Option String :=
  let sp := Spec.parse t
  match obs with
  | .list (.atom "panic" :: _) => some "panic"
  | .list (.atom "timeout" :: _) => some (deadlineVerdict t)
  | .list (.atom "display-panic" :: _) => some "display-panicked"
  | .list (.atom "unstable" :: _) => some "result-differs-between-identical-calls"
  | .list [.atom "skipped"] => none
  | .list (.atom "parse-error" :: _) =>
    match sp with
    | none => none
    | some _ => some "rejected-a-text-of-the-grammar"
  | .list [.atom "idl-error", msg, _] =>
    match sp, IdlObs.str msg with
    | some p, some msg =>
      let dups := Spec.duplicates p.members
      if dups.isEmpty then some "duplicate-error-without-duplicate"
      else if !(dups.all fun n => isInfixOf (quoted n) msg) then some "duplicated-name-not-named-in-error"
      else
        let lines := (Spec.splitOn '\n' msg).filter (!·.isEmpty)
        if !(lines.all fun l => dups.any fun n => endsWith l (quoted n ++ ['!']) &&
              isInfixOf (quoted p.name) l) then some "error-line-names-no-duplicate"
        else if msg.getLast? != some '\n' then some "error-text-not-newline-terminated"
        else none
    | none, _ => some "duplicate-error-for-a-text-outside-the-grammar"
    | _, none => some "unparsable-observation"
  | _ =>
    match IdlObs.okOf obs with
    | none => some "unparsable-observation"
    | some o =>
      match sp with
      | none => some "accepted-a-text-outside-the-grammar"
      | some p =>
        let ofKind (k : Kind) := p.members.filter (·.kind = k)
        if !(Spec.duplicates p.members).isEmpty then some "accepted-duplicate-definitions"
        else if o.name != p.name then some "interface-name-differs"
        else if o.doc != p.doc then some "interface-doc-differs"
        else if !o.descEq then some "description-is-not-the-source"
        else if o.tkeys != (ofKind .typedef).map (·.name) then some "typedef-keys-not-in-source-order"
        else if o.mkeys != (ofKind .method).map (·.name) then some "method-keys-not-in-source-order"
        else if o.ekeys != (ofKind .error).map (·.name) then some "error-keys-not-in-source-order"
        else if decide (o.types ≠ ofKind .typedef) then some "typedefs-differ-from-source"
        else if decide (o.methods ≠ ofKind .method) then some "methods-differ-from-source"
        else if decide (o.errors ≠ ofKind .error) then some "errors-differ-from-source"
        else none

/-- C12 on one observation: no panic; the parse came back within the deadline; a syntax error reports a line of the input and a column
    within it (1 ≤ column ≤ length + 1); the error was rendered. -/
def P_C12 (t : Str) (obs : Sx) : Option String :=
  match obs with
  | .list (.atom "panic" :: _) => some "panic"
  | .list (.atom "timeout" :: _) => some (deadlineVerdict t)
  | .list (.atom "unstable" :: _) => some "result-differs-between-identical-calls"
  | .list [.atom "display-panic", _, col, _] => some ("display-panicked column=" ++ ((asNat col).map toString).getD "?")
  | .list [.atom "skipped"] => none
  | .list [.atom "parse-error", col, line, shown] =>
    match asNat col, IdlObs.str line, IdlObs.str shown with
    | some col, some line, some shown =>
      let lines := (String.ofList t).splitOn "\n" |>.map String.toList
      if !lines.contains line then some "reported-line-is-not-a-line-of-the-input"
      else if col < 1 || col > line.length + 1 then some "column-outside-the-line"
      else if !("Varlink parse error\n".toList.isPrefixOf shown) || !isInfixOf line shown then some "display-lost-the-line"
      else none
    | _, _, _ => some "unparsable-observation"
  | .list [.atom "idl-error", msg, shown] =>
    match IdlObs.str msg, IdlObs.str shown with
    | some msg, some shown => if endsWith shown msg && !msg.isEmpty then none else some "display-lost-the-message"
    | _, _ => some "unparsable-observation"
  | .list (.atom "ok" :: _) => none
  | _ => some "unparsable-observation"

end VV
