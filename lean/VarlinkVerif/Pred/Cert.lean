/-
Pred.Cert — the decidable predicate `P_C19` evaluated on the *implementation's*
observation of every generated case of suite `cert`: the request history sent to
the real `varlink-certification` server and the replies it wrote.

It restates C19 on observables with its own little tracker of "which step does
the service expect from this client id" (a restatement of `check_client_id`:
the expectation advances whenever a request for the expected step with
well-typed parameters arrives — whether or not the step then passes).  It does
not call `certHandle`.  Shared vocabulary: the interface's types and canonical
values (`Step.argsTy`, `Step.wants`, `Step.successActs`), typed decoding
(`decode`), `modeOk`.
-/
import VarlinkVerif.Model.Cert
import VarlinkVerif.Pred.Wire

namespace VV

/-- one request of the history as the predicate sees it -/
structure CertQ where
  cls : String                 -- generator's classification: canon | same | dev | other
  raw : Json                   -- the document that was sent
  closed : Bool                -- the server closed the connection afterwards
  replies : List Reply

/-- what `VarlinkService::handle` takes for a request (lib.rs 1500-1525, after ce5196b): the
    message must be a JSON object (serde's derive alone would also take the array form) and
    deserialize as `Request` -/
def frameRequest (cvt : Int → Nat) (raw : Json) : Option Request :=
  match raw with
  | .obj _ => decodeRequest cvt raw
  | _ => none

abbrev Tracker := List (String × Step)

def Tracker.get (t : Tracker) (id : String) : Option Step :=
  (t.find? fun e => e.1 == id).map (·.2)

def Tracker.put (t : Tracker) (id : String) (k : Step) : Tracker :=
  (id, k) :: t.filter fun e => e.1 != id

/-- the replies a successful step `k` writes (for a request with the step's call mode) -/
def successRepliesOf (k : Step) : List Reply :=
  (runActs (modeFlags k { method := k.method }) k.successActs {}).1.out

/-- is this reply list the success reply of `Start`, and for which id? -/
def startSuccessId : List Reply → Option String
  | [r] =>
    match r.continues, r.error, r.parameters with
    | none, none, some (.obj [("client_id", .str id)]) => some id
    | _, _, _ => none
  | _ => none

def allowedErrors : List String :=
  [sCertificationError, sClientIdError, sInvalidParameter, sMethodNotFound, sInterfaceNotFound]

/-- typed view of a request: which step, which client id, typed-canonical? -/
structure TypedQ where
  step : Step
  cid : String
  typedCanon : Bool            -- call mode and typed parameters are the canonical ones

def typedOf (cvt : Int → Nat) (req : Request) : Option TypedQ :=
  match stepOfMethod req.method, req.parameters with
  | some k, some p =>
    match decode cvt k.argsTy p with
    | some args =>
      match clientIdOf args with
      | some cid => some { step := k, cid := cid, typedCanon := modeOk k.mode req && decide (args = k.wants cid) }
      | none => none
    | none => none
  | _, _ => none

def replyListEq (a b : List Reply) : Bool := decide (a = b)

/-- a refused request was seen earlier in the history: a later canonical request that fails
    is reported as the refused request having affected another client -/
def rejectedReason (refused : List String) (cid : Option String) : String :=
  let other := match cid with
    | some c => !refused.isEmpty && !refused.contains c
    | none => !refused.isEmpty
  if other then "canonical-client-failed-after-a-refused-request" else "canonical-request-rejected"

def isRefusal (q : CertQ) : Bool :=
  q.closed || q.replies.isEmpty || q.replies.any fun r => r.error == some sClientIdError

/-- walk the history; `none` = the property held.  `seen` = the client ids of the earlier
    requests of this history that were refused (ClientIdError, or no answer at all): when a
    canonical request of ANOTHER client (or a `Start`) fails afterwards, the reason says so. -/
def P_C19_history (cvt : Int → Nat) : List String → Tracker → List CertQ → Verdict
  | _, _, [] => none
  | seen, tr, q :: rest =>
    let badReply := q.replies.any fun r =>
      match r.error with
      | some e => !allowedErrors.contains e
      | none => false
    if badReply then some "unexpected-error-name" else
    match frameRequest cvt q.raw with
    | none =>
      -- not a request at all: nothing may be answered
      if !q.replies.isEmpty then some "reply-to-undecodable-request"
      else if q.cls == "canon" || q.cls == "same" then some "classification-mismatch"
      else P_C19_history cvt seen tr rest
    | some req =>
      if req.method == startMethod then
        let canon := startOk req
        match startSuccessId q.replies with
        | some id =>
          if !canon then some "success-for-deviating-request"
          else if q.cls == "dev" then some "classification-mismatch"
          else P_C19_history cvt seen (tr.put id .t01) rest
        | none =>
          if canon then some (rejectedReason seen none)
          else if q.cls == "canon" || q.cls == "same" then some "classification-mismatch"
          else if q.replies.any (fun r => r.error.isNone) then some "success-for-deviating-request"
          else P_C19_history cvt seen tr rest
      else
        match typedOf cvt req with
        | none =>
          -- unknown method, absent or ill-typed parameters: never a success reply
          if q.replies.any (fun r => r.error.isNone) then some "success-for-deviating-request"
          else if q.cls == "canon" || q.cls == "same" then some "classification-mismatch"
          else P_C19_history cvt seen tr rest
        | some t =>
          let inOrder := tr.get t.cid == some t.step
          let canon := inOrder && t.typedCanon
          let tr' := if inOrder then tr.put t.cid t.step.next else tr
          let succ := replyListEq q.replies (successRepliesOf t.step)
          let anySuccessReply := q.replies.any fun r => r.error.isNone
          if (q.cls == "canon" || q.cls == "same") && !t.typedCanon then some "classification-mismatch"
          else if q.cls == "dev" && canon then some "classification-mismatch"
          else if canon && !succ then some (rejectedReason seen (some t.cid))
          else if !canon && anySuccessReply then some "success-for-deviating-request"
          else P_C19_history cvt (if !canon && isRefusal q then t.cid :: seen else seen) tr' rest

/-- a concurrent canonical client: every step's replies are the success replies -/
def clientAllSuccess (idx : Nat) (rs : List (Bool × List Reply)) : Bool :=
  rs.length == 13 &&
  (List.range 13).all fun pos =>
    match rs[pos]? with
    | some (closed, replies) =>
      !closed && replyListEq replies (successRepliesAt pos ("@cid" ++ toString idx))
    | none => false

def P_C19_conc (clients : List (List (Bool × List Reply))) : Verdict :=
  if (List.range clients.length).all fun i => clientAllSuccess i (clients[i]?.getD []) then none
  else some "concurrent-canonical-client-failed"

def posOfStep : Step → Nat
  | .t01 => 1 | .t02 => 2 | .t03 => 3 | .t04 => 4 | .t05 => 5 | .t06 => 6 | .t07 => 7
  | .t08 => 8 | .t09 => 9 | .t10 => 10 | .t11 => 11 | .fin => 12

/-- one round of a same-step race: the SAME canonical step of ONE client id sent on `n`
    connections at once, for the steps in order.  A step is atomic, so the outcomes must be
    those of SOME sequential order of the n requests: for `Test01`..`Test10` exactly one
    success reply and `ClientIdError` for all the others (the step was consumed); for `End`
    (which leaves the client at `End`) every request may succeed. -/
def P_C19_race (n : Nat) (round : List (Nat × List (Bool × List Reply))) : Verdict :=
  firstSome (round.map fun (pos, outs) =>
    let succ := successRepliesAt pos "@cid0"
    let nSucc := (outs.filter fun o => !o.1 && replyListEq o.2 succ).length
    let nIdErr := (outs.filter fun o => !o.1 && replyListEq o.2 [clientIdError]).length
    if outs.length != n then some "race-observation-incomplete"
    else if pos == 12 then
      if nSucc + nIdErr == n && nSucc ≥ 1 then none else some "race-outcome-not-sequential"
    else if nSucc > 1 then some "step-succeeded-twice"
    else if nSucc == 1 && nIdErr + 1 == n then none
    else some "race-outcome-not-sequential")

/-- many clients between `Start` and `End` at the same time, each going through the canonical
    sequence: at every step ALL n clients get that step's success replies (the table holds
    any number of clients; nobody is dropped before `End`).  Observation per step: the
    distinct outcomes with (count, first client index, closed, replies), the client's own id
    printed as "@cid". -/
def P_C19_many (n : Nat) (steps : List (Nat × List (Nat × Nat × Bool × List Reply))) : Verdict :=
  if steps.length != 13 then some "many-observation-incomplete" else
  firstSome (steps.map fun (pos, groups) =>
    match groups with
    | [(cnt, _, closed, replies)] =>
      if cnt == n && !closed && replyListEq replies (successRepliesAt pos "@cid") then none
      else some "client-in-flight-rejected"
    | _ => some "client-in-flight-rejected")

end VV
