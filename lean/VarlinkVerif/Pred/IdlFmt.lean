/-
Pred.IdlFmt — decidable predicate for C10 on the observations of suite `fmt`
(real formatter, real re-parse).  Nothing here calls the format model.
-/
import Driver.Sx
import VarlinkVerif.Pred.Idl

namespace VV
open Sx Idl

/-- remove `ESC [ (digit|;)* m` sequences (a direct scan, independent of `Fmt.stripSGR`) -/
def stripSgrScan : Nat → Str → Str
  | 0, s => s
  | _ + 1, [] => []
  | n + 1, c :: r =>
    if c.toNat = 27 then
      match r with
      | b :: r' =>
        if b = '[' then
          let params := r'.takeWhile fun x => ('0' ≤ x && x ≤ '9') || x == ';'
          match r'.drop params.length with
          | m :: r'' => if m = 'm' then stripSgrScan n r'' else c :: stripSgrScan n r
          | [] => c :: stripSgrScan n r
        else c :: stripSgrScan n r
      | [] => [c]
    else c :: stripSgrScan n r

partial def sxEq : Sx → Sx → Bool
  | .atom a, .atom b => a == b
  | .list a, .list b => a.length == b.length && (a.zip b).all fun (x, y) => sxEq x y
  | _, _ => false

/-- C10 on one observation: the formatted text parses again to the same definition (name, docs,
    per-kind key order, member names, types), formatting that again reproduces the text, and the
    colored rendering is the plain one plus SGR escape sequences. -/
def P_C10 (caseSx obs : Sx) : Option String :=
  match caseSx, obs with
  | _, .list (.atom "panic" :: _) => some "panic"
  | _, .list [.atom "unparsable"] => none
  | .list (.atom "fmt" :: _), .list [.atom "fmt", orig, plain, colored, re, second] =>
    match IdlObs.str plain, IdlObs.str colored with
    | some plain, some colored =>
      match re with
      | .list (.atom "ok" :: _) =>
        if !sxEq orig re then
          (match IdlObs.okOf orig, IdlObs.okOf re with
           | some o, some r =>
             if o.name != r.name then some "reparse:interface-name-differs"
             else if o.doc != r.doc then some "reparse:interface-doc-differs"
             else if o.tkeys != r.tkeys || o.mkeys != r.mkeys || o.ekeys != r.ekeys then some "reparse:member-order-differs"
             else if decide (o.types.map (·.doc) ≠ r.types.map (·.doc)) || decide (o.methods.map (·.doc) ≠ r.methods.map (·.doc))
                  || decide (o.errors.map (·.doc) ≠ r.errors.map (·.doc)) then some "reparse:member-doc-differs"
             else some "reparse:member-types-differ"
           | _, _ => some "unparsable-observation")
        else if !sxEq second (.atom "t") then some "second-formatting-differs"
        else if stripSgrScan (colored.length + 1) colored != stripSgrScan (plain.length + 1) plain then
          some "colored-differs-from-plain-by-more-than-escapes"
        else none
      | _ => some "formatted-text-does-not-parse"
    | _, _ => some "unparsable-observation"
  | .list (.atom "fmt1" :: _), .list [.atom "fmt1", _, _, _] => none
  | .list (.atom "cli" :: _), .list [.atom "cli", code, out, lib] =>
    -- the command-line tool accepts exactly the files the library accepts (whatever FILE is: a regular
    -- file, /dev/stdin behind a pipe, a named pipe) and prints exactly the library's rendering, and a newline
    match IdlObs.str out, lib with
    | some out, .atom "-" =>
      if sxEq code (.atom "0") then some "cli-accepted-a-file-the-library-rejects"
      else if !out.isEmpty then some "cli-printed-output-for-a-rejected-file"
      else none
    | some out, lib =>
      match IdlObs.str lib with
      | some lib =>
        if !sxEq code (.atom "0") then some "cli-failed-on-a-file-the-library-accepts"
        else if out == lib ++ ['\n'] then none
        else if out.contains (Char.ofNat 0xFFFD) && !lib.contains (Char.ofNat 0xFFFD) then
          some "cli-output-differs-from-library-rendering:replacement-character"
        else some "cli-output-differs-from-library-rendering"
      | none => some "unparsable-observation"
    | none, _ => some "unparsable-observation"
  | .list (.atom "conc" :: _), .list (.atom "conc" :: rs) =>
    -- every rendering made while other threads were rendering equals the sequential one
    let bad := rs.filter fun r => match r with
      | .list [_, _, a, b, c, _] => !(sxEq a (.atom "0") && sxEq b (.atom "0") && sxEq c (.atom "0"))
      | _ => true
    let plainBad := rs.any fun r => match r with
      | .list [_, _, a, _, c, _] => !(sxEq a (.atom "0") && sxEq c (.atom "0"))
      | _ => true
    if bad.isEmpty then none
    else if plainBad then some "concurrent-plain-rendering-differs-from-sequential"
    else some "concurrent-colored-rendering-differs-from-sequential"
  | _, _ => some "unparsable-observation"

end VV
