/-
Pred.Serde — the decidable predicate `P_C17` evaluated on the *implementation's*
observation of every generated case of suite `serde` (DESIGN §5.2).  It restates
C17 on observables only: the three real encodings (as JSON trees), the nine real
decodings of them (as typed values plus Rust's own `==` verdict), and for the
decode direction the real decodings of a raw document and their re-encodings.
It does not call `encode` / `decode`; what it shares with the model is the
vocabulary (`Ty`, `TVal`, `Json.norm`, `objEquiv`).

A verdict is `none` (holds / not applicable) or `some reason`.
-/
import VarlinkVerif.Model.Serde
import VarlinkVerif.Pred.Wire

namespace VV

/-- observation of an `(enc ty v)` case -/
structure EncObs where
  /-- `to_string`, `to_vec`, `to_value`, each parsed back into a tree (`none` = failed) -/
  encs : List (Option Json)
  /-- `to_string` and `to_vec` wrote the same bytes -/
  sameBytes : Bool
  /-- for encoding in [string, vec, value], for decoder in [str, slice, value]:
      `none` = error, `some (decoded, decoded == original)` -/
  rt : List (Option (TVal × Bool))

/-- observation of a `(dec ty raw)` case: from_str, from_slice, from_value ∘ from_str::<Value> -/
structure DecObs where
  str : Option (TVal × Json)
  slice : Option (TVal × Json)
  value : Option (TVal × Json)

/-! #### helpers on observables -/

mutual
  def jsonDupFree : Json → Bool
    | .arr l => jsonDupFreeList l
    | .obj l => distinct (l.map (·.1)) && jsonDupFreeObj l
    | _ => true
  def jsonDupFreeList : List Json → Bool
    | [] => true
    | x :: xs => jsonDupFree x && jsonDupFreeList xs
  def jsonDupFreeObj : List (String × Json) → Bool
    | [] => true
    | (_, v) :: rest => jsonDupFree v && jsonDupFreeObj rest
end

def optEq (a b : Option (TVal × Json)) : Bool :=
  match a, b with
  | none, none => true
  | some (x, j), some (y, k) => x == y && j == k
  | _, _ => false

/-- a `Some(Value::Null)` sits in an `Option<Value>` member -/
def hasSomeNull : Fields → List TVal → Bool
  | (_, _, .opt .value) :: fs, .some (.value .null) :: vs => true || hasSomeNull fs vs
  | _ :: fs, _ :: vs => hasSomeNull fs vs
  | _, _ => false

/-- the value with every `Some(Value::Null)` in an `Option<Value>` member replaced by `None` -/
def someNullToNone : Fields → List TVal → List TVal
  | (_, _, .opt .value) :: fs, .some (.value .null) :: vs => .none :: someNullToNone fs vs
  | _ :: fs, v :: vs => v :: someNullToNone fs vs
  | _, vs => vs

/-- members marked skip-if-none: absent exactly when `None` -/
def omitsUnset : Fields → List TVal → List (String × Json) → Bool
  | (n, skip, _) :: fs, v :: vs, obj =>
    (if skip then (v.isNone == (Json.lookup n obj).isNone) else (Json.lookup n obj).isSome)
      && omitsUnset fs vs obj
  | _, _, _ => true

/-- an object mapping each element to `{}` and nothing else -/
def isSetShape (elems : List String) : Json → Bool
  | .obj l => l == elems.map fun k => (k, Json.obj [])
  | _ => false

/-- `tbl` is the measured behaviour of serde_json's text layer on the floats of the
    case (`tblFn tbl b` = what printing and re-parsing the f64 `b` yields) -/
def P_C17_enc (t : Ty) (v : TVal) (tbl : List (Nat × Nat)) (o : EncObs) : Verdict :=
  match o.encs with
  | [some a, some b, some c] =>
    if !(a == b && b == c.mapFlt (tblFn tbl)) then some "encodings-differ"
    else if !o.sameBytes then some "to_string-and-to_vec-differ"
    else if o.rt.length != 9 then some "missing-decodings"
    else
      let rtBad := o.rt.any fun r => match r with
        | some (w, eq) => !(eq && w == v)
        | none => true
      let shape : Verdict :=
        match t, v with
        | .struct fs, .struct vs =>
          (match c with
           | .obj l => if omitsUnset fs vs l then none else some "unset-member-not-omitted"
           | _ => some "struct-not-an-object")
        | .set, .set l => if isSetShape l c then none else some "set-shape"
        | .map .set, .map l =>
          (match c with
           | .obj ol =>
             if ol.length == l.length && (l.zip ol).all (fun p =>
               match p.1.2 with
               | .set s => p.1.1 == p.2.1 && isSetShape s p.2.2
               | _ => false) then none else some "set-shape"
           | _ => some "set-shape")
        | _, _ => none
      if rtBad then
        match t, v with
        | .struct fs, .struct vs =>
          -- the recorded finding C17-F3, and only it: the sole difference is that every
          -- `Option<Value>` member holding JSON null came back as `None`
          if hasSomeNull fs vs && o.rt.all (fun r => match r with
              | some (w, eq) => !eq && w == TVal.struct (someNullToNone fs vs)
              | none => false)
          then some "roundtrip-differs:some-null"
          else if !tbl.isEmpty then some "roundtrip-differs:float-text" else some "roundtrip-differs"
        | _, _ => if !tbl.isEmpty then some "roundtrip-differs:float-text" else some "roundtrip-differs"
      else shape
  | _ => some "encoding-failed"

def P_C17_dec (t : Ty) (opt known : List String) (raw : Json) (o : DecObs) : Verdict :=
  if !optEq o.str o.slice then some "from_str-and-from_slice-differ"
  else if jsonDupFree raw && !optEq o.str o.value then some "text-and-value-entry-differ"
  else
    match t, raw with
    | .struct _, .obj _ =>
      if known.isEmpty then none else
      let chk (r : Option (TVal × Json)) (src : Json) : Verdict :=
        match r with
        | none => none
        | some (_, re) =>
          if decide (objEquiv opt re (restrictTo known src)) then none else some "object-not-equivalent"
      firstSome [chk o.str raw, chk o.value raw.norm]
    | _, _ => none

end VV
