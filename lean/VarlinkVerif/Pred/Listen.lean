/-
Pred.Listen — P_C13 and P_C15 on observations of the real `varlink::listen`.
-/
import VarlinkVerif.Pred.Wire

namespace VV

/-! #### P_C13 -/

structure ConnObs where
  closed : Bool                 -- the server closed its side (EOF seen by the client)
  out : List Reply
  rawOut : Bool
  up : Bytes                    -- echo of what the upgraded handler read
  late : Bool := false          -- served noticeably later than its own traffic explains while another peer was stalled
  refStatus : String            -- eof | err | up
  refOut : List Reply
  refUp : Bytes

/-- `myTokens` = tokens of this client's requests, `otherTokens` = tokens of all other clients -/
def P_C13_conn (kind : String) (otherTokens : List String) (o : ConnObs) : Verdict :=
  if kind == "idle" || kind == "flood" then
    if o.out.isEmpty && o.up.isEmpty then none else some "bytes-for-a-silent-connection"
  else if kind == "sendclose" then none     -- hung up without reading: nothing of its own to judge
  else if o.late then some "connection-delayed-by-another-connection"
  else if o.rawOut then some "unparsable-bytes-on-a-connection"
  else if o.out.any (fun rep => otherTokens.any fun t => mentions t rep) then some "reply-caused-by-another-connection"
  else if o.out != o.refOut then some "replies-differ-from-the-connection's-own-sequential-expectation"
  else if o.up != o.refUp then some "upgraded-handler-did-not-get-exactly-the-bytes-after-the-request"
  else if !o.closed then some "connection-not-closed-after-the-peer-finished"
  else none

/-! #### P_C15 -/

structure TimingConn where
  accepted : Nat
  gotFirst : Bool
  complete : Bool
  closed : Nat

structure TimingObs where
  result : String     -- ok | timeout | err
  ret : Nat           -- ms
  removed : Bool
  conns : List TimingConn
  flagKept : Bool := true                  -- the caller's stop flag still reads as the caller left it
  twin : Option (String × Nat) := none     -- a second listener sharing the flag: (result, ms)

structure TimingCase where
  idle : Nat
  stopAt : Option Nat
  initial : Nat
  max : Nat
  conns : List (Nat × Nat)    -- (at, hold)
  horizon : Option Nat := none  -- observation ends here; a server that is still running is left behind

def slack : Nat := 60

def P_C15_timing (c : TimingCase) (o : TimingObs) : Verdict :=
  let served := o.conns.filter (·.gotFirst)
  if o.result == "err" then some "listen-returned-an-unexpected-error"
  else if !o.removed then some "socket-path-not-removed"
  else if !o.flagKept then some "listen-changed-the-callers-stop-flag"
  else if (match o.twin, c.stopAt with
      | some (r, t), some s => r != "ok" || t > s + 100 + 400
      | _, _ => false) then some "another-listener-sharing-the-stop-flag-did-not-stop"
  else if served.any (fun k => !k.complete) then some "accepted-connection-not-served-to-completion"
  else if served.any (fun k => k.closed > o.ret + slack) then some "returned-while-a-connection-was-still-being-served"
  -- a connection that was never served may only be one still waiting in the kernel's backlog when the
  -- listener went away (then it ends when `listen` returns); one that ended long before that had been
  -- accepted and was dropped
  else if o.conns.any (fun k => !k.gotFirst && k.accepted > 0 && k.closed + 250 < o.ret) then
    some "accepted-connection-dropped-without-being-served"
  else if o.result == "timeout" then
    if c.idle == 0 then some "timeout-without-idle-timeout"
    -- the idle timeout is only taken when nothing is in service, and `listen` then returns at once: a peer that
    -- connected long before `listen` returned and was never served shows that accepting had stopped while
    -- something was still being served
    else if o.conns.any (fun k => !k.gotFirst && k.accepted > 0 && k.accepted + 300 < o.ret) then
      some "idle-timeout-taken-while-a-connection-was-still-in-service"
    else
      let lastAccept := served.foldl (fun m k => Nat.max m k.accepted) 0
      if o.ret + slack < lastAccept + c.idle * 1000 then some "timeout-earlier-than-idle-timeout-after-the-last-connection"
      else none
  else -- ok
    match c.stopAt with
    | none => some "returned-ok-without-a-stop-flag"
    | some s =>
      if o.ret + slack < s then some "returned-ok-before-the-flag-was-set"
      else if served.any (fun k => k.accepted > s + 100 + 150) then
        some "still-accepting-connections-after-the-stop-flag-was-set"
      else
        -- prompt: one slice after the flag, or as soon as the connections open then are done
        let lastClosed := served.foldl (fun m k => Nat.max m k.closed) 0
        if o.ret > Nat.max (s + 100) lastClosed + 400 then some "did-not-stop-promptly-after-the-flag-was-set"
        else none

end VV
