/-
Pred.Cli — the decidable predicate `P_C20` evaluated on the implementation's
observation (stdout documents, exit status, stderr report, request seen by the
scripted service) of every case of suite `cli`.  It does not use
`Cli.split`/`Cli.runCall`; it restates the property on the reply script.
-/
import VarlinkVerif.Model.Cli
import VarlinkVerif.Pred.Client

namespace VV
namespace Cli
open Client

abbrev Verdict := Option String

structure CliCase where
  url : String
  args : Option Json          -- `none`: no ARGUMENTS given
  more : Bool
  frames : List Msg           -- what the service sends back for the first request, then EOF
  listening : Bool := false   -- a scripted service listens on `listen`
  listen : String := ""
  hold : Bool := false        -- the service keeps the connection open after the frames (the harness ends the tool)
  debug : Bool := false       -- --debug: the report is printed in another form (only its presence is observed)
  hosts : Bool := false       -- the address names the service by a host name that resolves to several addresses
  closeAfter : Option Nat := none  -- the reader of stdout goes away after that many documents
  bridge : Bool := false      -- `--bridge CMD`: the argument is the method as a whole

structure CliObs where
  conns : Nat
  log : List Request
  rawLog : Bool
  stdout : List Json
  clean : Bool
  exit : Option Nat            -- `none`: killed / hung
  report : Option Report
  otherMsg : Bool              -- stderr carried some other message

/-- independent split: everything after the last '/' -/
def methodPart (url : String) : String := ((url.splitOn "/").getLast?).getD ""

/-- the replies the tool is expected to read: one, or (with `--more`) up to the first one that is
    not `continues`; `none` in the list marks a frame that is not a reply; the Bool says whether the
    expected final reply is among them -/
def expectedReads (more : Bool) : List Msg → List (Option Reply) × Bool
  | [] => ([], false)
  | .reply r :: rest =>
    if !more then ([some r], true)
    else if r.continues == some true then
      let (l, fin) := expectedReads more rest
      (some r :: l, fin)
    else ([some r], true)
  | _ :: _ => ([none], false)

def goodPrefix : List (Option Reply) → List Reply
  | some r :: rest => if r.error.isNone then r :: goodPrefix rest else []
  | _ => []

def stdShort : List (String × String × String) :=
  [("org.varlink.service.InterfaceNotFound", "InterfaceNotFound", "interface"),
   ("org.varlink.service.MethodNotFound", "MethodNotFound", "method"),
   ("org.varlink.service.MethodNotImplemented", "MethodNotImplemented", "method"),
   ("org.varlink.service.InvalidParameter", "InvalidParameter", "parameter")]

/-- `ADDRESS/INTERFACE.METHOD` with the address of the listening service -/
def url_ok (c : CliCase) : Bool :=
  let parts := c.url.splitOn "/"
  parts.length ≥ 2 && ((methodPart c.url).splitOn ".").length ≥ 2 &&
    (let a := "/".intercalate parts.dropLast
     (if a.startsWith "unix:" then ((a.splitOn ";").head?).getD a else a) == c.listen)

/-- the address part of `ADDRESS/METHOD` (independent of `Cli.split`): all but the last '/'-separated piece,
    without the `;parameters` suffix of a unix address -/
def addressPart (url : String) : String :=
  let a := "/".intercalate ((url.splitOn "/").dropLast)
  if a.startsWith "unix:" then ((a.splitOn ";").head?).getD a else a

def P_C20 (c : CliCase) (o : CliObs) : Verdict :=
  if !o.clean then some "stdout-is-not-a-sequence-of-json-documents" else
  if o.exit.isNone && !c.hold then some "tool-did-not-terminate" else
  -- the argument names another address than the one the service listens on: it must not be reached
  if c.listening && o.conns > 0 && addressPart c.url != c.listen then
    some "service-contacted-although-the-argument-names-another-address (not split at the last slash)" else
  -- a well-formed ADDRESS/INTERFACE.METHOD whose address is the one the service listens on must reach it
  if c.listening && (url_ok c) && o.conns == 0 then
    (if c.hosts then some "service-not-contacted-although-its-host-name-resolves-to-the-address-it-listens-on"
     else if c.listen.startsWith "tcp:[" then some "service-not-contacted-although-it-listens-on-the-ipv6-literal-address-given"
     else some "address-method-argument-not-split-at-the-last-slash (service not contacted)") else
  if o.conns == 0 || o.log.isEmpty then
    -- nothing was called: nothing may be printed, and that is a failure
    (if !o.stdout.isEmpty then some "output-without-a-call"
     else if o.exit == some 0 then some "exit-0-without-a-call" else none)
  else
  if o.rawLog then some "service-received-something-that-is-not-a-request" else
  match o.log with
  | [rq] =>
    if rq.method != (if c.bridge then c.url else methodPart c.url) then some "method-is-not-the-text-after-the-last-slash"
    else if rq.parameters != some (c.args.getD .null) then some "arguments-not-passed-verbatim"
    else if (rq.more == some true) != c.more then some "more-flag-does-not-follow---more"
    else if rq.oneway.isSome || rq.upgrade.isSome then some "unexpected-request-flag"
    else
      let (reads, finalSeen) := expectedReads c.more c.frames
      let good := goodPrefix reads
      let wantAll := good.map fun r => r.parameters.getD (.obj [])
      -- a reader that goes away after n documents gets exactly the first n
      let wantOut := match c.closeAfter with | some n => wantAll.take n | none => wantAll
      if c.closeAfter.isSome && o.stdout == wantOut then
        -- not every reply could be delivered (or one was an error / missing): that is not a success
        (if o.exit == some 0 && (wantAll.length > wantOut.length || !(good.length == reads.length && finalSeen)) then
           some "exit-status-0-although-replies-could-not-be-delivered-to-stdout"
         else none)
      else
      if o.stdout != wantOut then
        (if o.stdout.length < wantOut.length then some "a-successful-reply-was-not-printed"
         else if o.stdout.length > wantOut.length then some "more-documents-printed-than-successful-replies"
         else some "printed-value-differs-from-the-reply-parameters")
      else
        let allGood := good.length == reads.length && finalSeen
        -- a stream that is still open: everything received so far is on stdout (checked above) and the tool waits
        if c.hold && good.length == reads.length && !finalSeen then
          (if o.exit.isSome then some "tool-ended-although-the-stream-is-still-open"
           else if o.report.isSome || o.otherMsg then some "error-message-while-the-stream-is-still-open" else none)
        else if o.exit.isNone then some "tool-did-not-terminate"
        else if allGood && o.exit != some 0 then some "exit-status-nonzero-although-every-reply-arrived-without-error"
        else if !allGood && o.exit == some 0 then some "exit-status-0-although-a-reply-was-an-error-or-missing"
        else
          -- the first reply that is an error must be reported by name and parameters
          match reads[good.length]? with
          | some (some e) =>
            if c.debug then (if e.error.isSome && !o.otherMsg then some "error-reply-not-reported-on-stderr" else none) else
            (match e.error with
             | some name =>
               (match stdShort.find? (·.1 == name), o.report with
                | some (_, short, member), some (.std s p) =>
                  if s == short && p == namedString member e.parameters then none
                  else some "standard-error-reported-with-wrong-name-or-parameter"
                | none, some (.named n ps) =>
                  if n == name && ps == e.parameters then none else some "error-name-or-parameters-not-reported"
                | _, _ => some "error-reply-not-reported-on-stderr")
             | none => none)
          | _ => if allGood && (o.report.isSome || o.otherMsg) then some "error-message-on-success" else none
  | _ => some "more-than-one-request-for-one-call"

end Cli
end VV
