/-
Pred.Addr — the decidable predicate `P_C16` on what the `addr` suite observes on
the real code.  It restates the property text directly (prefix tests with
`List.isPrefixOf`, "name = text up to the first `;`" with `takeWhile`) and does
not call the functions of Model.Addr that the theorems are about.
-/
import VarlinkVerif.Model.Wire

namespace VV
namespace AddrPred

abbrev Verdict := Option String

/-- result of `varlink_connect` / `Listener::new` as observed -/
inductive Res where
  | invalid
  | io
  | ok (scheme : String) (target : String)
  | other (what : String)        -- timeout, panic, …
deriving Repr, DecidableEq

/-- the property text: which scheme and name an address denotes -/
def specTarget (a : List Char) : Option (String × List Char) :=
  if "tcp:".toList.isPrefixOf a then some ("tcp", a.drop 4)
  else if "unix:@".toList.isPrefixOf a then some ("abstract", (a.drop 6).takeWhile (· ≠ ';'))
  else if "unix:".toList.isPrefixOf a then some ("path", (a.drop 5).takeWhile (· ≠ ';'))
  else none

def checkRes (who : String) (spec : Option (String × List Char)) (r : Res) : Verdict :=
  match spec, r with
  | none, .invalid => none
  | none, _ => some (who ++ "-accepts-unsupported-scheme")
  | some _, .invalid => some (who ++ "-rejects-supported-scheme")
  | some _, .io => none
  | some (sch, tgt), .ok s t =>
    if s != sch then some (who ++ "-wrong-scheme")
    else if t.toList != tgt then some (who ++ "-wrong-target")
    else none
  | _, .other w => some (who ++ "-" ++ w)

/-- address strings: client and server alike -/
def P_parse (address : String) (client server : Res) : Verdict :=
  let spec := specTarget address.toList
  match checkRes "client" spec client with
  | some v => some v
  | none =>
    match checkRes "server" spec server with
    | some v => some v
    | none =>
      match client, server with
      | .invalid, .invalid => none
      | .invalid, _ => some "client-rejects-server-accepts"
      | _, .invalid => some "server-rejects-client-accepts"
      | .ok s1 t1, .ok s2 t2 => if s1 == s2 && t1 == t2 then none else some "client-server-different-target"
      | _, _ => none

/-- how `LISTEN_PID` is set in a child whose pid is only known at run time -/
inductive PidSpec where
  | absent
  | lit (v : String)                 -- never the child's pid (the generator guarantees that)
  | self (pre suf : String)          -- `<pre>$$<suf>`
deriving Repr, DecidableEq

def allDigits (l : List Char) : Bool := l.all fun c => '0' ≤ c && c ≤ '9'

/-- unsigned decimal as `str::parse::<usize>` reads it: optional `+`, digits -/
def usizeText (s : String) : Option Nat :=
  let l := s.toList
  let body := match l with
    | '+' :: r => r
    | _ => l
  if body.isEmpty || !allDigits body then none
  else
    let n := body.foldl (fun acc c => acc * 10 + (c.toNat - 48)) 0
    if n < 18446744073709551616 then some n else none

/-- does the variable name this very process?  `<pre><pid><suf>` reads as the
    pid exactly when nothing follows and only a `+` and zeros precede -/
def pidNamesSelf : PidSpec → Bool
  | .absent => false
  | .lit _ => false
  | .self pre suf =>
    let p := pre.toList
    let zeros := match p with
      | '+' :: r => r
      | _ => p
    suf.isEmpty && zeros.all (· == '0')

inductive LRes where
  | invalid
  | io
  | ok (kind : String) (activated : Bool) (fd : Option Nat) (name : String)
  | other (what : String)
deriving Repr, DecidableEq

/-- activation environments -/
def P_actenv (fds : Option String) (pid : PidSpec) (names : Option String) (address : String) (r : LRes) : Verdict :=
  let spec := specTarget address.toList
  let nfds := fds.bind usizeText
  match r with
  | .other w => some ("listener-" ++ w)
  | .invalid => if spec.isSome then some "server-rejects-supported-scheme" else none
  | .io => if spec.isNone then some "server-accepts-unsupported-scheme" else none
  | .ok kind activated fd _ =>
    if spec.isNone then some "server-accepts-unsupported-scheme"
    else if (kind == "tcp") != (spec.map (·.1) == some "tcp") then some "listener-kind-differs-from-scheme"
    else if activated then
      -- honoured: only for the process LISTEN_PID names, and only with LISTEN_FDS ≥ 1
      if !pidNamesSelf pid then some "activation-honoured-for-foreign-pid"
      else match nfds with
        | none => some "activation-honoured-without-listen-fds"
        | some 0 => some "activation-honoured-without-listen-fds"
        | some 1 => if fd == some 3 then none else some "activation-wrong-descriptor"
        | some _ =>
          match names with
          | none => some "activation-without-names"
          | some ns =>
            let parts := ns.splitOn ":"
            match parts.findIdx? (· == "varlink") with
            | none => some "activation-without-varlink-name"
            | some i => if fd == some (3 + i) then none else some "activation-wrong-descriptor"
    else
      -- not honoured: fine unless the standard single-descriptor hand-over was due
      if pidNamesSelf pid && nfds == some 1 then some "activation-ignored"
      else none

structure ActFacts where
  listenFds : String
  fdnames : String
  pidOk : Bool
  addressIsFd3 : Bool
  fd3Listening : Bool
  connAddress : Bool
deriving Repr, DecidableEq

/-- one transport run: the reply lines as printed, or what went wrong -/
inductive XRes where
  | out (replies : List String)
  | bad (what : String)
deriving Repr, DecidableEq

/-- the seven transports (six ways of reaching the service, plus the CLI bridge as a bridge command) against the same service -/
def P_xport (runs : List (String × XRes)) (act : Option ActFacts) : Verdict :=
  match runs with
  | [] => some "no-transport-ran"
  | (_, first) :: _ =>
    match runs.find? (fun r => match r.2 with | .bad _ => true | .out _ => false) with
    | some (n, .bad w) => some ("transport-" ++ n ++ "-" ++ w)
    | _ =>
      match runs.find? (fun r => r.2 != first) with
      | some (n, _) => some ("transport-" ++ n ++ "-replies-differ")
      | none =>
        if runs.length != 7 then some "transport-missing"
        else match act with
          | none => some "activated-service-left-no-dump"
          | some a =>
            if a.listenFds != "1" then some "activation-LISTEN_FDS"
            else if a.fdnames != "varlink" then some "activation-LISTEN_FDNAMES"
            else if !a.pidOk then some "activation-LISTEN_PID-not-own-pid"
            else if !a.fd3Listening then some "activation-fd3-not-listening-socket"
            else if !a.addressIsFd3 then some "activation-VARLINK_ADDRESS-not-fd3"
            else if !a.connAddress then some "activation-address-mismatch"
            else none

end AddrPred
end VV
