/-
Pred.Gen — decidable property predicates for C08 and C09, evaluated on the
*implementation's* observations.  They do not call `encode`/`decode`/`dispatch`/`verdict`:
`shapeMatch` relates a typed value to a JSON text member by member (order-insensitive),
`conforms`/`strictIll` recognise the IDL's JSON shape, and P_C09 only needs the
well-formedness hypotheses and (for the finding tag) the `Safe` components.
-/
import VarlinkVerif.Model.Gen
import VarlinkVerif.Model.GenEmit

namespace VV
namespace Gen

def jlookup (k : String) (l : List (String × Json)) : Option Json := Json.lookup k l

def sameKeys (a b : List String) : Bool := a.all b.contains && b.all a.contains && a.length == b.length

def isEmptyObj : Json → Bool
  | .obj [] => true
  | _ => false

/-! #### a typed value is on the wire in the IDL's JSON shape -/

mutual
  /-- `j` is exactly the value `v` in the JSON shape of its (value-carried) Rust type -/
  def shapeMatch : Val → Json → Bool
    | .bool b, .bool c => b == c
    | .int i, .int k => i == k
    | .flt b, .flt c => b == c
    | .str s, .str t => s == t
    | .json a, b => decide (a = b)
    | .none, .null => true
    | .some v, j => shapeMatch v j
    | .arr l, .arr js => shapeList l js
    | .map kvs, .obj os => sameKeys (kvs.map (·.1)) (os.map (·.1)) && shapeKV kvs os
    | .set ks, .obj os => sameKeys ks (os.map (·.1)) && os.all (fun o => isEmptyObj o.2)
    | .record kvs, .obj os => sameKeys (kvs.map (·.1)) (os.map (·.1)) && shapeKV kvs os
    | .enum v, .str s => v == s
    | _, _ => false
  def shapeList : List Val → List Json → Bool
    | [], [] => true
    | v :: vs, j :: js => shapeMatch v j && shapeList vs js
    | _, _ => false
  /-- every member of the value is found in the object with the right shape -/
  def shapeKV : List (String × Val) → List (String × Json) → Bool
    | [], _ => true
    | (k, v) :: rest, os =>
      (match jlookup k os with
       | some j => shapeMatch v j
       | none => false) && shapeKV rest os
end

/-- top-level struct: a `none` member must be absent, every other member present with its shape -/
def shapeTop (kvs : List (String × Val)) (os : List (String × Json)) : Bool :=
  let present := kvs.filter (fun kv => !(isNone kv.2))
  sameKeys (present.map (·.1)) (os.map (·.1)) && shapeKV present os

/-! #### a JSON text has the IDL's shape for a type (independent of any value) -/

mutual
  def conforms (env : Env) (t : Ty) (j : Json) : Bool :=
    match resolve env t, j with
    | .bool, .bool _ => true
    | .int, .int i => inI64 i
    | .float, .flt _ => true
    | .float, .int i => inJsonInt i
    | .string, .str _ => true
    | .object, _ => true
    | .enum vs, .str s => vs.contains s
    | .arr te, .arr l => conformsList env te l
    | .map (.struct []), .obj kvs => kvs.all (fun kv => isEmptyObj kv.2)
    | .map te, .obj kvs => conformsValues env te kvs
    | .struct fs, .obj kvs =>
      conformsMembers env fs kvs && fs.all (fun f => isOpt f.2 || (kvs.any (·.1 == f.1)))
    | _, _ => false
  def conformsList (env : Env) (te : Ty) : List Json → Bool
    | [] => true
    | x :: xs =>
      (match te, x with
       | .opt _, .null => true
       | .opt t', x => conforms env t' x
       | t, x => conforms env t x) && conformsList env te xs
  def conformsValues (env : Env) (te : Ty) : List (String × Json) → Bool
    | [] => true
    | (_, x) :: xs =>
      (match te, x with
       | .opt _, .null => true
       | .opt t', x => conforms env t' x
       | t, x => conforms env t x) && conformsValues env te xs
  /-- only IDL field names occur, each with a conforming value -/
  def conformsMembers (env : Env) (fs : List (String × Ty)) : List (String × Json) → Bool
    | [] => true
    | (k, x) :: xs =>
      (match lookupTy k fs with
       | none => false
       | some ft =>
         match ft, x with
         | .opt _, .null => true
         | .opt t', x => conforms env t' x
         | t, x => conforms env t x) && conformsMembers env fs xs
end

/-- definitely not of the type: wrong JSON kind at the top, or a required member missing, or a
    member of a base type with the wrong kind (serde's lenient forms are never "definitely ill") -/
def baseKindMismatch (env : Env) (t : Ty) (j : Json) : Bool :=
  match resolve env t, j with
  | .bool, .bool _ => false
  | .bool, _ => true
  | .int, .int i => !(inI64 i)
  | .int, _ => true
  | .float, .flt _ => false
  | .float, .int i => !(inJsonInt i)
  | .float, _ => true
  | .string, .str _ => false
  | .string, _ => true
  | .arr _, .arr _ => false
  | .arr _, _ => true
  | .map _, .obj _ => false
  | .map _, _ => true
  | .enum vs, .str s => !(vs.contains s)
  | .enum _, .obj _ => false
  | .enum _, _ => true
  | .struct _, .obj _ => false
  | .struct _, .arr _ => false
  | .struct _, _ => true
  | _, _ => false

def strictIllStruct (env : Env) (fs : List (String × Ty)) (j : Json) : Bool :=
  match j with
  | .obj kvs =>
    fs.any fun (f, ft) =>
      match jlookup f kvs with
      | none => !(isOpt ft)
      | some x =>
        match ft with
        | .opt t' => !(x matches .null) && baseKindMismatch env t' x
        | t => baseKindMismatch env t x
  | .arr _ => false
  | _ => true

/-! #### P_C08 -/

def isInvalidParameterReply (j : Json) : Bool :=
  match j.get? "error" with
  | some (.str s) => s == "org.varlink.service.InvalidParameter"
  | _ => false

def jBoolIs (j : Json) (k : String) (b : Bool) : Bool :=
  match j.get? k with
  | some (.bool c) => b == c
  | none => !b
  | _ => false

def checkReplyFrame (i : IDL) (m : Method) (a : Action) (frame : Json) : Option String :=
  match a, frame with
  | .reply c v, .obj os =>
    if !(jBoolIs frame "continues" c) then some "reply-continues-flag"
    else if (jlookup "error" os).isSome then some "reply-has-error"
    else if m.output.isEmpty then
      (if (jlookup "parameters" os).isSome then some "empty-reply-with-parameters" else none)
    else match v, jlookup "parameters" os with
      | .record kvs, some (.obj ps) => if shapeTop kvs ps then none else some "reply-parameters-not-idl-shape"
      | _, _ => some "reply-parameters-missing"
  | .error en v, .obj os =>
    match i.errors.find? (·.name == en) with
    | none => some "script-names-unknown-error"
    | some e =>
      if jlookup "error" os != some (.str (methodName i.name en)) then some "error-name-wrong"
      else if e.parm.isEmpty then
        (if (jlookup "parameters" os).isSome then some "error-without-params-has-parameters" else none)
      else match v, jlookup "parameters" os with
        | .record kvs, some (.obj ps) => if shapeTop kvs ps then none else some "error-parameters-not-idl-shape"
        | _, _ => some "error-parameters-missing"
  | _, _ => some "reply-frame-not-an-object"

def checkFrames (i : IDL) (m : Method) : List Action → List Json → Option String
  | [], [] => none
  | a :: as, f :: fs => match checkReplyFrame i m a f with
    | some r => some r
    | none => checkFrames i m as fs
  | _, _ => some "reply-count-differs-from-script"

def actionWellTyped (i : IDL) (m : Method) : Action → Bool
  | .reply _ v => wellTyped i.env (.struct m.output) v
  | .error en v => match i.errors.find? (·.name == en) with
    | some e => wellTyped i.env (.struct e.parm) v
    | none => false

def checkClient : List Action → List ClientObs → Option String
  | [], [] => none
  | .reply _ _ :: as, .ok eq _ :: os => if eq then checkClient as os else some "reply-arrived-different"
  | .error en _ :: as, .err en' eq :: os =>
    if en != en' then some "error-arrived-as-other-variant"
    else if eq then checkClient as os else some "error-arrived-different"
  | [], _ => some "client-saw-extra-replies"
  | _, _ => some "client-outcome-kind-wrong"

/-- generated client ↔ generated server, one call -/
def P_C08_call (i : IDL) (m : Method) (mode : Mode) (args : Val) (script : List Action) (o : CallObs) : Option String :=
  match o.req with
  | [.obj ros] =>
    let r := Json.obj ros
    if jlookup "method" ros != some (.str (methodName i.name m.name)) then some "request-method-name"
    else if !(jBoolIs r "more" (mode == .more)) || !(jBoolIs r "oneway" (mode == .oneway)) then some "request-flags"
    else match args, jlookup "parameters" ros with
      | .record kvs, some (.obj ps) =>
        if !(wellTyped i.env (.struct m.input) args) then none   -- excluded point (non-finite float / ?object = null)
        else if !(shapeTop kvs ps) then some "request-parameters-not-idl-shape"
        else if o.seen != [true] then some "server-saw-different-arguments"
        else if !(script.all (actionWellTyped i m)) then none
        else match mode with
          | .oneway =>
            if !o.wire.isEmpty then some "oneway-answered"
            else (match o.client with
                  | [.okOneway] => none
                  | _ => some "oneway-client-outcome")
          | _ =>
            match checkFrames i m script o.wire with
            | some r => some r
            | none => checkClient script o.client
      | _, _ => some "request-parameters-missing"
  | _ => some "not-exactly-one-request-frame"

structure RawObs where
  seen : List (String × Json)
  wire : List Json
  srvOk : Bool
deriving Repr, Inhabited

/-- raw request to the generated server: missing / definitely ill-typed parameters ⇒ `InvalidParameter`,
    the implementation is not called; parameters in IDL shape ⇒ it is called -/
def P_C08_raw (i : IDL) (req : Json) (o : RawObs) : Option String :=
  match req.get? "method" with
  | some (.str full) =>
    match i.methods.find? (fun m => methodName i.name m.name == full) with
    | none => none
    | some m =>
      if m.input.isEmpty then none else
      let oneway := jBoolIs req "oneway" true
      -- ill-typed: the IDL-typed decoding of the parameters fails (`decodeStruct` is the IDL's JSON shape with
      -- serde's documented leniencies), or the independent kind checker finds a definite mismatch
      let bad := match nonNull (req.get? "parameters") with
        | none => true
        | some p => strictIllStruct i.env m.input p || (decodeStruct i.env m.input p).isNone
      let good := match nonNull (req.get? "parameters") with
        | none => false
        | some p => conforms i.env (.struct m.input) p
      if bad then
        if !o.seen.isEmpty then some "implementation-called-with-bad-parameters"
        else if oneway then (if o.wire.isEmpty then none else some "oneway-answered")
        else match o.wire with
          | [f] => if isInvalidParameterReply f then none else some "bad-parameters-not-answered-with-InvalidParameter"
          | _ => some "bad-parameters-not-answered-with-InvalidParameter"
      else if good then
        if o.seen.length != 1 then some "implementation-not-called-on-valid-parameters"
        else if o.wire.any isInvalidParameterReply then some "valid-parameters-answered-with-InvalidParameter"
        else none
      else none
  | _ => none

/-- serde level: `from_value::<T>(j).map(to_value)` -/
def P_C08_probe (env : Env) (t : Ty) (j : Json) (result : Option Json) : Option String :=
  match result with
  | some j' =>
    -- JSON that the IDL-typed decoding refuses must be refused (e.g. a `[string]()` member that is not `{}`)
    if (decode env t j).isNone then some "ill-typed-json-accepted"
    else if conforms env t j' then none else some "serialised-value-not-in-idl-shape"
  | none => if conforms env t j then some "idl-shaped-json-rejected" else none

/-! #### P_C09 -/

def wellFormedB (i : IDL) : Bool := resolvedB i && finiteB i && siblingDistinctB i

def classTag (i : IDL) : String :=
  match failedClasses i with
  | [] => "none"
  | l => "+".intercalate l

/-- accepted ∧ well-formed ∧ (panic ∨ rustc error) ⇒ violation (tagged with the `Safe` component that
    fails, for the known-findings matcher) -/
def P_C09_compile (i : IDL) (genOk panicked : Bool) (rustc : Option String) : Option String :=
  if !(wellFormedB i) then none
  else if panicked then some ("generator-panic class=" ++ classTag i)
  else if !genOk then some "accepted-by-parser-rejected-by-generator"
  else match rustc with
    | none => none
    | some cat => some ("rustc-" ++ cat ++ " class=" ++ classTag i)

/-- one front-end on one text -/
def P_C09_front (parsed : Option IDL) (status : String) (emitted : Bool) (same : Option Bool) : Option String :=
  match parsed with
  | none =>
    if status == "panic" then some "generator-panicked-on-rejected-input"
    else if emitted then some "rejected-text-but-code-emitted"
    else if status != "err" then some ("rejected-text-without-diagnostic status=" ++ status)
    else none
  | some i =>
    if !(wellFormedB i) then none
    else if status != "ok" then some ("front-end-" ++ status ++ " class=" ++ classTag i)
    else if !emitted then some "accepted-text-nothing-emitted"
    else if same == some false then some "front-end-output-differs-from-generate"
    else none

/-! #### sessions: several calls over one connection, one service with several generated interfaces -/

inductive SStep where
  /-- generated client call on interface number `i`; mode `call` | `more` | `oneway` | `abandon<K>` (a stream of which
      only the first K replies are read before the call is dropped) -/
  | gen (i : Nat) (method : String) (mode : String) (args : Val) (script : List Action)
  /-- a request written by hand -/
  | raw (req : Json)
deriving Repr, Inhabited

inductive SObs where
  | g (outs : List ClientObs)
  /-- reply frame read back, or why none was (`busy`, `closed`, `io`) -/
  | r (reply : Option Json) (tag : String)
deriving Repr, Inhabited

def abandonCount (mode : String) : Option Nat :=
  if (mode.toList.take 7) == "abandon".toList then (String.ofList (mode.toList.drop 7)).toNat? else none

def hasOkOutcome : List ClientObs → Bool
  | [] => false
  | .ok _ _ :: _ => true
  | _ :: rest => hasOkOutcome rest

/-- Walks the steps with the one piece of client state that matters (C07): after a stream is dropped before its
    last reply the connection stays with the dropped call, and every later call must be REFUSED (`ConnectionBusy`) —
    never answered with a reply that belongs to another call.  While the connection is free every generated call
    must return exactly what the implementation passed (`checkClient`), whatever was called before on whichever
    interface, and every hand-written request must be answered with an error. -/
def sessionWalk (idls : List IDL) : List SStep → List SObs → Bool → Nat → Nat → Option String × Nat
  | [], [], _, _, expectSeen => (none, expectSeen)
  | .gen i mn mode args script :: steps, .g outs :: obs, busy, k, expectSeen =>
    let tag := "step" ++ toString k ++ ": "
    if busy then
      if hasOkOutcome outs then (some (tag ++ "stale-reply-returned-to-another-call"), expectSeen)
      else match outs with
        | [.verr "busy"] => sessionWalk idls steps obs true (k + 1) expectSeen
        | _ => (some (tag ++ "call-on-busy-connection-not-refused"), expectSeen)
    else
      match idls[i]? with
      | none => (some (tag ++ "no-such-interface-in-case"), expectSeen)
      | some idl =>
        match idl.methods.find? (·.name == mn) with
        | none => (some (tag ++ "no-such-method-in-case"), expectSeen)
        | some m =>
          if !(wellTyped idl.env (.struct m.input) args && script.all (actionWellTyped idl m)) then
            sessionWalk idls steps obs busy (k + 1) expectSeen
          else
            let (expected, busy') : List Action × Bool :=
              match abandonCount mode with
              | some n => (script.take n, decide (n < script.length))
              | none => (script, false)
            let verdict : Option String :=
              if mode == "oneway" then
                (match outs with
                 | [.okOneway] => none
                 | _ => some "oneway-client-outcome")
              else checkClient expected outs
            match verdict with
            | some r => (some (tag ++ r), expectSeen)
            | none => sessionWalk idls steps obs busy' (k + 1) (expectSeen + 1)
  | .raw _ :: steps, .r reply t :: obs, busy, k, expectSeen =>
    let tag := "step" ++ toString k ++ ": "
    if busy then
      if t == "busy" then sessionWalk idls steps obs true (k + 1) expectSeen
      else (some (tag ++ "hand-written-request-on-busy-connection"), expectSeen)
    else
      match reply with
      | some j => if (j.get? "error").isSome then sessionWalk idls steps obs false (k + 1) expectSeen
                  else (some (tag ++ "error-provoking-request-not-answered-with-an-error"), expectSeen)
      | none => (some (tag ++ "error-provoking-request-not-answered status=" ++ t), expectSeen)
  | _, _, _, k, expectSeen => (some ("step" ++ toString k ++ ": observation-does-not-match-step"), expectSeen)

/-- `seenFlags`: for every invocation of a recording implementation by a generated call, were the values equal to
    those the client passed -/
def P_C08_session (idls : List IDL) (steps : List SStep) (obs : List SObs) (seenFlags : List Bool) : Option String :=
  match sessionWalk idls steps obs false 0 0 with
  | (some r, _) => some r
  | (none, n) =>
    if seenFlags.any (fun b => !b) then some "server-saw-different-arguments"
    else if seenFlags.length != n then
      some ("implementation-saw-" ++ toString seenFlags.length ++ "-of-" ++ toString n ++ "-calls")
    else none

/-- the build helper on several files in one call: with only accepted, well-formed, Safe-to-generate inputs it
    must succeed and emit for every file what `generate` emits; with a rejected file it must fail with a
    diagnostic and emit nothing for that file -/
def P_C09_frontmany (parsed : List (Option IDL)) (status : String) (outs : List (Bool × Option Bool)) : Option String :=
  if parsed.length != outs.length then some "front-end-build-helper-observation-malformed"
  else if parsed.all (fun p => match p with
      | some i => wellFormedB i && safeRawIdent i
      | none => false) then
    if status != "ok" then some ("front-end-build-helper-failed-on-valid-input status=" ++ status)
    else if outs.any (fun o => !o.1) then some "front-end-build-helper-emitted-nothing-for-valid-input"
    else if outs.any (fun o => o.2 == some false) then some "front-end-build-helper-output-differs-from-generate"
    else none
  else if (parsed.zip outs).any (fun (p, o) => p.isNone && o.1) then some "rejected-text-but-code-emitted"
  else if parsed.any (·.isNone) && status == "ok" then some "rejected-text-without-diagnostic status=ok"
  else none

end Gen
end VV
