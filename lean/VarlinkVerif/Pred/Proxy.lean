/-
Pred.Proxy — the decidable predicate `P_C18` on what the `proxy` suite observes:
the bridged session must equal what the *direct* runs (one connection per
service) show, request by request; the bridge must still be serving after the
last answer and exit with status 0 once the client closes.

Also here: the routing of the reference client (`refRoute`), i.e. which service
a client that talks to the services directly sends each request to.  It is
written independently of Model.Proxy (it shares only `ifaceOf` /
`decodeDescArgs` of Model.Wire).
-/
import VarlinkVerif.Model.Wire

namespace VV
namespace ProxyPred

abbrev Verdict := Option String

/-- what kind of request this is for the bridge (names the input class in a verdict) -/
inductive Cls where
  | bad | nodot | getinfo | getdescNoParams | getdescIllTyped | resolverIface
  | unknownIface | unreachable | moved | routed
deriving Repr, DecidableEq

def Cls.name : Cls → String
  | .bad => "malformed-frame"
  | .nodot => "method-without-dot"
  | .getinfo => "getinfo"
  | .getdescNoParams => "getdesc-without-parameters"
  | .getdescIllTyped => "getdesc-illtyped-parameters"
  | .resolverIface => "resolver-interface"
  | .unknownIface => "unknown-interface"
  | .unreachable => "unreachable-address"
  | .moved => "moved-interface"
  | .routed => "routed"

structure Routed where
  target : Nat          -- service index; the resolver has index `nsvc`
  frame : Frame         -- what the reference client sends there
  cls : Cls
  oneway : Bool
  upgrade : Bool
  /-- for a request no service can be asked about: the interface (or whole method) a
      transparent bridge names in its InterfaceNotFound reply -/
  notFound : Option String := none
deriving Repr

abbrev Table := List (String × List String)

def svcIndexOf (addrs : List String) (a : String) : Option Nat :=
  addrs.findIdx? (· == a)

/-- reference client in resolver mode: `addrs[k]` is the address of service `k` -/
def refRoute (table : Table) (addrs : List String) : Nat → List Frame → List Routed
  | _, [] => []
  | k, .bad :: fs =>
    { target := 0, frame := .bad, cls := .bad, oneway := false, upgrade := false } :: refRoute table addrs k fs
  | k, .req r :: fs =>
    let ow := r.oneway == some true
    let up := r.upgrade == some true
    let nsvc := addrs.length
    if r.method == "org.varlink.service.GetInfo" then
      { target := nsvc, frame := .req { r with method := "org.varlink.resolver.GetInfo" }, cls := .getinfo,
        oneway := ow, upgrade := up } :: refRoute table addrs (k + 1) fs
    else
      let sel : Option String × Cls :=
        match ifaceOf r.method with
        | none => (none, .nodot)
        | some i =>
          if r.method == "org.varlink.service.GetInterfaceDescription" then
            match r.parameters with
            | none => (none, .getdescNoParams)
            | some p =>
              match decodeDescArgs p with
              | some i' => (some i', .routed)
              | none => (none, .getdescIllTyped)
          else (some i, .routed)
      match sel with
      | (none, c) =>
        { target := 0, frame := .req r, cls := c, oneway := ow, upgrade := up,
          notFound := if c == .nodot then some r.method else none } :: refRoute table addrs k fs
      | (some i, _) =>
        let here : Nat × Cls :=
          if i == "org.varlink.resolver" then (nsvc, .resolverIface)
          else match table.find? (fun e => e.1 == i) with
            | some (_, a :: as) =>
              let addr := (a :: as)[min k as.length]!
              match svcIndexOf addrs addr with
              | some t => (t, if as.isEmpty then .routed else .moved)
              | none => (0, .unreachable)
            | _ => (0, .unknownIface)
        { target := here.1, frame := .req r, cls := here.2, oneway := ow, upgrade := up,
          notFound := if here.2 == .unknownIface || here.2 == .unreachable then some i else none } ::
          refRoute table addrs (k + 1) fs

/-- direct modes: everything goes to one service -/
def fixedRoute (t : Nat) (fs : List Frame) : List Routed :=
  fs.map fun f => match f with
    | .bad => { target := t, frame := .bad, cls := .bad, oneway := false, upgrade := false }
    | .req r => { target := t, frame := .req r, cls := .routed, oneway := r.oneway == some true,
                  upgrade := r.upgrade == some true }

/-- a reply as observed: its printed form and its `continues` flag -/
structure PRep where
  text : String
  continues : Bool
deriving Repr, DecidableEq

/-- take one reply group off a direct reply list: replies up to the first without
    `continues` (one reply for an upgrading call); `none` when the list ends first -/
def takeGroup (single : Bool) : List PRep → Option (List PRep × List PRep)
  | [] => none
  | r :: rs =>
    if single || !r.continues then some ([r], rs)
    else match takeGroup single rs with
      | some (g, rest) => some (r :: g, rest)
      | none => none

structure Expect where
  group : List PRep
  afterAbort : Bool       -- the direct connection to that service had already ended
deriving Repr

/-- per request, the group the direct runs show; `pending[t]` is what is left of
    the direct reply list of service `t` -/
def expectGroups (nf : String → PRep) : List Routed → List (Nat × List PRep) → List Nat → List Expect
  | [], _, _ => []
  | r :: rs, pending, dead =>
    if r.oneway then { group := [], afterAbort := dead.contains r.target } :: expectGroups nf rs pending dead
    else
      let mine := (pending.find? (·.1 == r.target)).map (·.2) |>.getD []
      match takeGroup r.upgrade mine with
      | some (g, rest) =>
        -- what cannot be routed was sent to service 0 only to keep the direct run aligned;
        -- the expected answer is the standard InterfaceNotFound
        { group := match r.notFound with | some i => [nf i] | none => g,
          afterAbort := dead.contains r.target } ::
          expectGroups nf rs ((r.target, rest) :: pending.filter (·.1 != r.target)) dead
      | none =>
        -- the direct connection ended here: whatever is left is the (incomplete) group
        { group := mine, afterAbort := true } ::
          expectGroups nf rs ((r.target, []) :: pending.filter (·.1 != r.target)) (r.target :: dead)

structure Bridged where
  out : List PRep
  raw : List UInt8
  ending : String            -- open | closed | timeout
  /-- closeearly behind a byte pump: only whether the replies that came are a prefix of the direct ones -/
  prefixOnly : Option Bool := none
deriving Repr

structure Obs where
  bridged : Option Bridged   -- none: the process panicked
  exit : String
  direct : List (Nat × List PRep × List UInt8)
  directClosed : List Nat := []   -- services that had closed their direct connection by the end of the session
  logsEqual : Option Bool    -- none: not observable in this mode
  upBridged : Option (List UInt8)
  upDirect : Option (List UInt8)
deriving Repr

def stopsWithReply : Cls → Bool
  | .nodot | .unknownIface | .unreachable | .getinfo | .resolverIface => true
  | _ => false

/-- walk the requests: the first one whose bridged group differs from the direct one.
    `aborted`: a direct connection has ended (the service closed it) at or before this point -/
def firstDivergence : List (Routed × Expect) → List PRep → Option Cls → Bool → Option String
  | [], [], _, _ => none
  | [], _ :: _, _, aborted =>
    some (if aborted then "service-abort-not-propagated" else "bridge-wrote-more-replies-than-direct")
  | (r, e) :: rest, out, prev, aborted =>
    let n := e.group.length
    let aborted' := aborted || e.afterAbort
    if out.take n == e.group then
      firstDivergence rest (out.drop n) (if n == 0 then prev else some r.cls) aborted'
    else if out.isEmpty then
      if aborted' then some "bridge-exits-after-service-abort"
      else match prev with
        | some c => if stopsWithReply c then some ("bridge-returns-after-" ++ c.name)
                    else some (r.cls.name ++ "-reply-missing")
        | none => some (r.cls.name ++ "-reply-missing")
    else if aborted' then some "service-abort-not-propagated"
    else some (r.cls.name ++ "-reply-differs")

def P_C18 (nf : String → PRep) (mode client : String) (hasPayload pipelinedPayload : Bool) (routed : List Routed)
    (o : Obs) (greeting : List UInt8 := []) : Verdict :=
  -- malformed frames and ill-typed GetInterfaceDescription parameters are not calls: outside the property
  if routed.any (fun r => r.cls == .bad || r.cls == .getdescIllTyped) then none
  else
  match o.bridged with
  | none => some (if mode == "connect" then "connect-mode-panics" else "bridge-panicked")
  | some b =>
    let pending := o.direct.map fun d => (d.1, d.2.1)
    let exps := expectGroups nf routed pending []
    -- the last request that was answered at all (oneway calls after it leave no trace)
    let lastCls := match ((routed.zip exps).reverse.find? (fun p => !p.2.group.isEmpty)) with
      | some p => some p.1.cls
      | none => routed.getLast?.map (·.cls)
    let upgradedSession := routed.getLast?.map (·.upgrade) == some true
    if let some p := b.prefixOnly then
      -- termination clause behind a pump: the bridge stops and reports success; what it forwarded
      -- is a prefix of the direct session (how long a prefix is the business of `closeprobe`)
      if !p then some "replies-differ-from-direct-on-client-close"
      else if b.ending != "closed" then some "bridge-does-not-stop-when-client-closes"
      else if o.exit != "0" then some ("exit-status-" ++ o.exit ++ "-after-client-close")
      else none
    else if client == "closeearly" then
      -- termination clause: the bridge stops and reports success; what it forwarded must be a
      -- prefix of the direct session
      if b.ending != "closed" then some "bridge-does-not-stop-when-client-closes"
      else
        let all := (exps.map (·.group)).flatten
        let div : Option String :=
          if b.out == all then none
          else if mode != "resolver" && b.out.length < all.length && all.take b.out.length == b.out then
            some "pending-input-dropped-on-close"
          else firstDivergence (routed.zip exps) b.out none false
        match div with
        | some v => some v
        | none =>
          -- `closed-by-service`: the service closed the connection (the direct run shows it too) and the
          -- pump stopped with status 0 or with an I/O error (reset), whichever its last read/write saw
          if o.exit == "0" || (o.exit == "closed-by-service" && !o.directClosed.isEmpty) then none
          -- a service that drops its connection is an I/O error for the bridge
          else if exps.any (·.afterAbort) then none
          else some ("exit-status-" ++ o.exit ++ "-after-client-close")
    else if (mode == "resolver" || mode == "bridge2") && !greeting.isEmpty &&
        (firstDivergence (routed.zip exps) b.out none false).isNone &&
        (let expected := if b.ending == "timeout" then greeting else (o.direct.map (·.2.2)).flatten
         let lost := expected.length - b.raw.length
         0 < lost && lost ≤ 8192 && b.raw.length < expected.length && expected.drop lost == b.raw) then
      -- the service speaks first (its greeting comes with the reply to the upgrading call): the client is
      -- missing a prefix of it no longer than the bridge's read buffer
      some "service-bytes-behind-upgrade-reply-lost"
    else if b.ending == "timeout" then
      -- the bridge stopped answering.  When the direct runs show a call that the service itself never
      -- answered (a direct reply list runs short), that is the known limitation; otherwise the bridge
      -- hangs on a session that every service answers completely
      some (if exps.any (·.afterAbort) then "bridge-hangs-on-unanswered-call" else "bridge-hangs")
    else
    match firstDivergence (routed.zip exps) b.out none false with
    | some v => some v
    | none =>
      if b.ending != "open" then
        -- behind a byte pump the end of the service's connection is the end of the session, as it is directly
        if mode != "resolver" && mode != "bridge2" && routed.all (fun r => o.directClosed.contains r.target)
            && !routed.isEmpty then
          -- the service closed the connection: success, or an I/O error (connection reset when it
          -- left input unread)
          (if o.exit == "0" || o.exit == "closed-by-service" then none else some ("exit-status-" ++ o.exit))
        else
        if exps.any (·.afterAbort) then some "bridge-exits-after-service-abort" else
        match lastCls with
        | some c => if stopsWithReply c then some ("bridge-returns-after-" ++ c.name)
                    else some "bridge-not-serving-after-session"
        | none => some "bridge-not-serving-after-session"
      else
        let directRaw := (o.direct.map (·.2.2)).flatten
        if b.raw != directRaw then
          some (if pipelinedPayload then "upgrade-buffered-bytes-misrouted" else "upgraded-bytes-differ")
        else if o.upBridged.isSome && o.upBridged != o.upDirect then
          some (if pipelinedPayload then "upgrade-buffered-bytes-misrouted" else "upgraded-service-input-differs")
        else if o.logsEqual == some false then
          -- a oneway call after the service dropped its direct connection is executed only through the bridge
          some (if exps.any (·.afterAbort) || routed.any (fun r => o.directClosed.contains r.target)
                then "service-abort-not-propagated" else "service-saw-different-calls")
        else if o.exit != "0" && !(o.exit == "closed-by-service" && !o.directClosed.isEmpty) then
          some (if upgradedSession && hasPayload then "upgraded-session-exit-" ++ o.exit
                else if upgradedSession then "upgraded-session-exit-" ++ o.exit
                else "exit-status-" ++ o.exit)
        else none

end ProxyPred
end VV
