/-
Pred.Client — the decidable predicate `P_C07` (and the client halves of C04 /
C05 it contains) evaluated on the *implementation's* observation of every case
of suite `client`.

It does not call `Client.send/recv/stepThread`.  It restates the property at
the level of *ownership*: a connection is idle, owned by one call object, or
lost (after an I/O error); a send succeeds only on an idle connection; every
frame coming back goes to the owner; the final reply makes the connection idle
again; a call object can be sent once.  For the thread cases (where only the
request log and the per-thread results are observable) the check is by tokens:
every reply a thread sees carries the token of the call object it was read
through, streams are complete and in order, every request reached the server
exactly once and unbroken.

Shared with the model: only the vocabulary (`Request`, `Reply`, `Msg`,
`Res`, `EKind`, `Op`).
-/
import VarlinkVerif.Model.Client

namespace VV
namespace Client

abbrev Verdict := Option String

/-- independent statement of "the outcome a reply must produce" -/
def stdErrors : List (String × String × (String → EKind)) :=
  [("org.varlink.service.InterfaceNotFound", "interface", .interfaceNotFound),
   ("org.varlink.service.InvalidParameter", "parameter", .invalidParameter),
   ("org.varlink.service.MethodNotFound", "method", .methodNotFound),
   ("org.varlink.service.MethodNotImplemented", "method", .methodNotImplemented)]

def namedString (member : String) (p : Option Json) : String :=
  match p with
  | some (.obj l) =>
    match l.find? (fun kv => kv.1 == member) with
    | some (_, .str s) => s
    | _ => ""
  | some (.arr [.str s]) => s
  | _ => ""

def expectedOutcome (dec : Decoder) (r : Reply) : Res :=
  match r.error with
  | none =>
    -- the payload must decode into the caller's reply type; if it does not, that is an error
    -- of this operation only (the reply has still been received)
    (match dec (r.parameters.getD (.obj [])) with
     | some v => .ok v
     | none => .err .badJson)
  | some name =>
    match stdErrors.find? (fun e => e.1 == name) with
    | some (_, member, mk) => .err (mk (namedString member r.parameters))
    | none => .err (.errorReply r)

inductive Owner where
  | idle
  | owned (i : Nat)
  | lost
deriving Repr, DecidableEq

structure Track where
  owner : Owner := .idle
  attempted : List Nat := []        -- objects on which a send was attempted
  cont : List Nat := []             -- objects whose `continues` flag is set
  frames : List Msg := []         -- frames under way to the client
  closed : Bool := false
  nsent : Nat := 0                  -- requests the server has seen
  wbudget : Option Nat := none
  log : List Request := []          -- what the server must have seen

structure SeqCase where
  objs : List (String × Json)
  ops : List Op
  groups : List (Bool × List Msg)   -- (close afterwards, frames); group 0 on connect
  wbudget : Option Nat
  dec : Decoder := decValue        -- the reply type of the call objects of this case
  unser : List Nat := []           -- call objects whose request does not serialize

def setCont (t : Track) (i : Nat) (b : Bool) : Track :=
  if b then (if t.cont.contains i then t else { t with cont := i :: t.cont })
  else { t with cont := t.cont.filter (· != i) }

/-- a frame is read through object `i`; returns the expected result (`none` = the read blocks) -/
def consume (dec : Decoder) (t : Track) (i : Nat) : Option Res × Track :=
  match t.frames with
  | [] => if t.closed then (some (.err .connectionClosed), t) else (none, t)
  | .ioerr c :: fs => (some (.err (if c then .connectionClosed else .io)), { t with frames := fs, owner := .lost })
  | .garbage :: fs => (some (.err .badJson), { t with frames := fs })
  | .reply r :: fs =>
    let t := { t with frames := fs }
    -- whatever the payload: a reply without `continues: true` ends the call and frees the connection
    if r.continues == some true then (some (expectedOutcome dec r), setCont t i true)
    else (some (expectedOutcome dec r), { setCont t i false with owner := .idle })

def isSendOp : Op → Bool
  | .call _ | .upgrade _ | .oneway _ | .more _ => true
  | _ => false

def requestOf (c : SeqCase) (op : Op) : Option Request :=
  match c.objs[op.obj]? with
  | none => none
  | some (m, p) =>
    let base : Request := { method := m, parameters := some p }
    match op with
    | .call _ => some base
    | .upgrade _ => some { base with upgrade := some true }
    | .oneway _ => some { base with oneway := some true }
    | .more _ => some { base with more := some true }
    | _ => none

/-- expected result of one operation (`none` = blocks) and the state afterwards -/
def expectOp (c : SeqCase) (t : Track) (op : Op) : Option Res × Track :=
  let i := op.obj
  if i ≥ c.objs.length then (some .noobj, t) else
  if isSendOp op then
    -- `more()` raises the flag before anything else
    let t := match op with | .more _ => setCont t i true | _ => t
    if t.attempted.contains i then (some (.err .methodCalledAlready), t) else
    let t := { t with attempted := i :: t.attempted }
    -- an operation that fails before writing leaves the connection as free (or as busy) as it was
    if c.unser.contains i then (some (.err .badJson), t) else
    match t.owner with
    | .owned _ => (some (.err .connectionBusy), t)
    | .lost => (some (.err .connectionBusy), t)
    | .idle =>
      if t.wbudget == some 0 then (some (.err .io), { t with owner := .lost }) else
      match requestOf c op with
      | none => (some .noobj, t)
      | some rq =>
        let g := (c.groups[t.nsent + 1]?).getD (false, [])
        let t := { t with log := t.log ++ [rq], nsent := t.nsent + 1,
                          wbudget := t.wbudget.map (· - 1),
                          frames := if t.closed then t.frames else t.frames ++ g.2,
                          closed := t.closed || g.1 }
        match op with
        | .oneway _ => (some .unit, t)
        | .more _ => (some .unit, { t with owner := .owned i })
        | _ => consume c.dec { t with owner := .owned i } i
  else
    match op with
    | .next _ =>
      if !t.cont.contains i then (some .none, t)
      else if t.owner == .owned i then consume c.dec t i else (some (.err .iteratorOldReply), t)
    | _ => if t.owner == .owned i then consume c.dec t i else (some (.err .iteratorOldReply), t)

structure SeqObs where
  results : List Res
  log : List Request
  rawLog : Bool              -- some logged request was not a well-formed request object
  slots : Option (Bool × Bool)
  blocked : Bool

def walk (c : SeqCase) : Track → List Op → List Res → Nat → Verdict × Track × Bool
  | t, [], [], _ => (none, t, false)
  | t, [], _ :: _, _ => (some "more-results-than-operations", t, false)
  | t, op :: ops, rs, n =>
    match expectOp c t op with
    | (none, t') =>
      -- the read must block: the implementation reports nothing further
      (if rs.isEmpty then none else some s!"operation-{n}-returned-although-no-reply-was-available", t', true)
    | (some want, t') =>
      match rs with
      | [] => (some s!"operation-{n}-did-not-return", t, false)
      | r :: rs' =>
        if r == want then walk c t' ops rs' (n + 1)
        else
          let why :=
            match want, r with
            | .err .badJson, .err .connectionBusy => "unserializable-request-reported-as-busy"
            | .err .connectionBusy, _ => "call-on-a-busy-connection-did-not-fail-with-busy"
            | _, .err .connectionBusy => "busy-although-the-connection-was-free"
            | .err .methodCalledAlready, _ => "call-object-sent-twice"
            | .none, _ => "iteration-did-not-end-after-the-final-reply"
            | _, .none => "iteration-ended-early"
            | .ok _, .ok _ => "value-returned-is-not-the-reply-the-service-sent-for-this-call"
            | .err .badJson, .ok _ => "unterminated-or-malformed-reply-reported-as-success"
            | .err .connectionClosed, .ok _ => "end-of-stream-reported-as-success"
            | .ok _, .err _ => "successful-reply-reported-as-error"
            | .err _, .ok _ => "error-reply-reported-as-success"
            | .err _, .err _ => "wrong-error-kind-or-payload"
            | _, _ => "wrong-outcome"
          (some s!"operation-{n}-{why}", t, false)

def P_C07_seq (c : SeqCase) (o : SeqObs) : Verdict :=
  let t0 : Track := { frames := ((c.groups[0]?).getD (false, [])).2, closed := ((c.groups[0]?).getD (false, [])).1,
                      wbudget := c.wbudget }
  let (v, t, blockedWanted) := walk c t0 c.ops o.results 0
  match v with
  | some r => some r
  | none =>
    if o.rawLog then some "server-received-bytes-that-are-not-a-request"
    else if o.log != t.log then
      (if o.log.length > t.log.length then some "server-received-a-request-that-should-not-have-been-written"
       else some "request-log-differs")
    else if blockedWanted != o.blocked then some "blocking-differs"
    else if o.blocked then none
    else match t.owner, o.slots with
      | .idle, some (r, w) =>
        if r && w then none
        else if c.ops.any (fun op => isSendOp op && c.unser.contains op.obj) then
          some "connection-lost-its-stream-although-no-call-is-outstanding (a send failed before writing: request did not serialize)"
        else some "connection-not-reusable-after-the-final-reply"
      | .owned _, some (r, w) => if !r && !w then none else some "stream-in-the-connection-while-a-call-owns-it"
      | _, _ => none

/-! ### thread cases: token based -/

def tokenOf (j : Json) : Option String :=
  match j.get? "token" with
  | some (.str s) => some s
  | _ => none

def idxOf (j : Json) : Option Int :=
  match j.get? "i" with
  | some (.int s) => some s
  | _ => none

def resPayload : Res → Option Json
  | .ok p => some p
  | .err (.errorReply r) => r.parameters
  | _ => none

structure ThrCase where
  objs : List (String × Json)
  progs : List (List Op)

/-- per-thread check: results of thread `t` against its program.
    `strict`: no operation may fail with busy (free mode retries) -/
def checkThread (c : ThrCase) (strict : Bool) (prog : List Op) (rs : List Res) : Verdict :=
  let rec go (ops : List Op) (rs : List Res) (sent : List Nat) (expectIdx : List (Nat × Int)) (fuel : Nat) : Verdict :=
    match fuel with
    | 0 => none
    | fuel + 1 =>
    match ops, rs with
    | _, [] => none           -- the schedule ended before the thread did
    | [], _ :: _ => some "more-results-than-operations"
    | op :: ops', r :: rs' =>
      let i := op.obj
      let tok := (c.objs[i]?).bind fun o => tokenOf o.2
      let tokOK : Bool := match resPayload r with
        | some p => (match tokenOf p, tok with
            | some a, some b => a == b
            | none, _ => !(match r with | .ok _ => true | _ => false) || tok.isNone
            | _, none => true)
        | none => true
      if !tokOK then some "reply-delivered-to-a-call-that-did-not-request-it" else
      if isSendOp op then
        if sent.contains i then
          (if r == .err .methodCalledAlready then go ops' rs' sent expectIdx fuel else some "call-object-sent-twice")
        else
          let sent := i :: sent
          match r with
          | .err .connectionBusy => if strict then some "busy-result-survived-the-retry-loop" else go ops' rs' sent expectIdx fuel
          | .unit => go ops' rs' sent (match op with | .more _ => (i, 0) :: expectIdx | _ => expectIdx) fuel
          | .ok p => (match op with
              | .call _ | .upgrade _ => if idxOf p == some 0 then go ops' rs' sent expectIdx fuel else some "wrong-reply-for-a-plain-call"
              | _ => some "value-returned-by-a-send-only-operation")
          | .err (.errorReply _) | .err (.methodNotFound _) => go ops' rs' sent expectIdx fuel
          | _ => some "unexpected-result-of-a-send"
      else
        -- next / recv: replies of a stream arrive in order 0, 1, .., k
        match r with
        | .ok p =>
          (match expectIdx.find? (·.1 == i) with
           | some (_, n) =>
             if idxOf p == some n then go ops' rs' sent (expectIdx.map fun e => if e.1 == i then (i, n + 1) else e) fuel
             else some "stream-replies-out-of-order-or-lost"
           | none => some "reply-read-through-an-object-that-never-sent-more")
        | _ => go ops' rs' sent expectIdx fuel
  go prog rs [] [] (prog.length + rs.length + 1)

/-- requests expected from thread `t`: one per send operation that did not fail locally, in program order -/
def expectedLog (c : ThrCase) (prog : List Op) (rs : List Res) : List Request :=
  let sc : SeqCase := { objs := c.objs, ops := [], groups := [], wbudget := none }
  ((prog.zip rs).filterMap fun (op, r) =>
    if isSendOp op && r != .err .connectionBusy && r != .err .methodCalledAlready && r != .noobj then requestOf sc op else none)

def threadOfReq (r : Request) : Option Nat :=
  match r.parameters with
  | some p => match p.get? "thread" with
    | some (.int n) => some n.toNat
    | _ => none
  | none => none

/-- `perThread`: results of each thread in its own order; `log`: the server's request log -/
def P_C07_threads (c : ThrCase) (strict : Bool) (perThread : List (List Res)) (log : List Request) (rawLog : Bool)
    (slots : Option (Bool × Bool)) (allDone : Bool) : Verdict :=
  if rawLog then some "server-received-bytes-that-are-not-a-request (interleaved writes?)" else
  let idx := List.range c.progs.length
  let perV := idx.filterMap fun t => checkThread c strict ((c.progs[t]?).getD []) ((perThread[t]?).getD [])
  match perV with
  | v :: _ => some v
  | [] =>
    let logV := idx.filterMap fun t =>
      let want := expectedLog c ((c.progs[t]?).getD []) ((perThread[t]?).getD [])
      let got := log.filter fun r => threadOfReq r == some t
      -- an operation that was still waiting for its reply when the schedule ended has sent its request already
      let sc : SeqCase := { objs := c.objs, ops := [], groups := [], wbudget := none }
      let inflight : List Request :=
        match ((c.progs[t]?).getD [])[((perThread[t]?).getD []).length]? with
        | some op => if isSendOp op then (requestOf sc op).toList else []
        | none => []
      if got == want || (!strict && got == want ++ inflight) then none
      else some "request-log-of-a-thread-differs-from-its-successful-sends"
    match logV with
    | v :: _ => some v
    | [] =>
      if log.any (fun r => (threadOfReq r).isNone) then some "request-without-thread-tag" else
      -- reusable: when every stream was read to its end the slots are back
      if allDone then
        match slots with
        | some (r, w) => if r && w then none else some "connection-not-reusable-after-all-calls-finished"
        | none => none
      else none

end Client
end VV
