/-
Pred.Pool — P_C14 (and the drain clause used by C15) on the observations of the
REAL thread pool driven along a forced schedule (harness suite `pool`).
Independent of Model.Pool's `step`: it only replays the enabled flags reported by
the harness to know how many jobs are queued and whether the acceptor is inside
`execute`.
-/
import VarlinkVerif.Model.Pool

namespace VV

structure PoolObsStep where
  enabled : Bool
  busy : Nat
  workers : Nat
  running : Nat
deriving Repr

structure PoolObs where
  steps : List PoolObsStep
  timedOut : Bool := false
  finished : Nat := 0
  enqueued : Nat := 0
  joined : Bool := false

abbrev PVerdict := Option String

structure Shadow where
  queued : Nat := 0
  accSent : Bool := false
  dropped : Bool := false

def shadowStep (sh : Shadow) (st : PStep) (enabled : Bool) : Shadow :=
  if !enabled then sh else
  match st with
  | .enq => { sh with queued := sh.queued + 1, accSent := true }
  | .grow => { sh with accSent := false }
  | .deq => if sh.dropped && sh.queued == 0 then sh else { sh with queued := sh.queued - 1 }
  | .drop => { sh with dropped := true }
  | _ => sh

def checkPoolSteps (max : Nat) : Shadow → List PStep → List PoolObsStep → PVerdict
  | _, [], _ => none
  | _, _, [] => none
  | sh, st :: sts, o :: os =>
    let sh' := shadowStep sh st o.enabled
    if o.running > max then some "more-connections-served-than-max"
    else if o.workers > max && max > 0 then some "more-workers-than-max"
    else if !sh'.accSent && !sh'.dropped && sh'.queued > 0 && o.running == o.workers && o.running < max then
      some "accepted-connection-stranded"
    else checkPoolSteps max sh' sts os

def P_C14 (_initial max : Nat) (steps : List PStep) (o : PoolObs) : PVerdict :=
  if o.timedOut then some "schedule-step-timed-out-on-the-real-pool"
  else checkPoolSteps max {} steps o.steps

/-- drain (C15): dropping the pool returns only after every enqueued job ran to completion -/
def P_C15_drain (o : PoolObs) : PVerdict :=
  if o.timedOut then some "schedule-step-timed-out-on-the-real-pool"
  else if !o.joined then some "pool-drop-did-not-join-all-workers"
  else if o.finished != o.enqueued then some "pool-dropped-before-all-accepted-connections-were-served"
  else none

end VV
