#!/bin/sh
# Build the framework from files on disk only (offline): Lean models/proofs/driver and the Rust harness.
set -e
cd "$(dirname "$0")"
export CARGO_NET_OFFLINE=true
mkdir -p work
if [ -f tools/extract.py ]; then python3 tools/extract.py /repo lean/VarlinkVerif/Model/Extracted.lean; fi
(cd lean && lake build VarlinkVerif vmodel)
[ -f harness/Cargo.lock ] || cp /repo/Cargo.lock harness/Cargo.lock
CARGO_TARGET_DIR="$PWD/work/target" RUSTFLAGS="--cfg varlink_rust_verif -Awarnings" \
  cargo build --offline --manifest-path harness/Cargo.toml
echo "setup done"
